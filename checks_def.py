"""Registry of the checks: which monitors (vh subcommands), flavours and shards decide each property."""

MEMSEQ_ASSUME = [
    "single-threaded sequences: every observation point is quiescent",
    "hash(key) == key (harness BuildHasher) so the shard of a key is key % shards",
    "per-shard capacities are measured through the public API on a fresh cache of the same configuration",
    "the LRU pin model of the ledger (looked up since the handle count was last zero) is the documented behaviour",
]

CHECKS = {}

CHECKS["C05"] = dict(
    title="Memory usage accounting is exact and capacity-bounded without over-eviction",
    level="exploration",
    rule=("cases = (a) measured shard-capacity splits for capacity 0..12 x shards 1..4 x 5 algorithms, (b) ALL op sequences of "
          "depth 3 (quick) / 4 (thorough) over a 26-symbol alphabet {insert k in 0..3 with w in {0,1,2,3,cap+1}, get-and-hold, touch, "
          "remove, drop handle, clear, resize, evict_all} for each algorithm (1 shard cap 4, 2 shards cap 5), (c) seeded random "
          "sequences of 20..400 ops over random configurations (capacity 0..14, shards 1..4, algorithm parameter variants). "
          "After EVERY step the ledger compares usage()/entries()/contains() with the resident set derived from leave events and "
          "judges necessity and sufficiency of each eviction. Non-trivial = the sequence caused at least one capacity eviction; "
          "distinct = hash of (configuration, op sequence)."),
    exhaustive_part="part (b): every sequence of the stated depth over the stated alphabet is run",
    assumptions=MEMSEQ_ASSUME,
    min_nontrivial=50,
    jobs=[dict(cmd="memseq", args={"prop": "C05"}, tiers=["quick", "thorough"], timeout=1500)],
)

CHECKS["C13"] = dict(
    title="Each entry leaves memory exactly once, with the right reason and disk hand-off",
    level="exploration",
    rule=("same sequence machinery as C05 with a recording Pipe installed and a listener that looks the leaving key up again from "
          "inside on_leave; alphabet adds kept handles, disk-only (filter-rejected) inserts and flush(). Ledger: every admitted id "
          "leaves exactly once by the time the cache is dropped, with the reason the operation implies, is not returned by the "
          "re-entrant lookup, Evict-reason ids are offered to the pipe exactly once in that operation, Replace/Remove/Clear ids never. "
          "Non-trivial = at least two different leave reasons occurred; distinct = hash of (configuration, op sequence)."),
    exhaustive_part="every sequence of depth 3 (quick) / 4 (thorough) over the C13 alphabet, 5 algorithms",
    assumptions=MEMSEQ_ASSUME + ["disk-only (phantom) entries are judged on their single pipe offer only, not on the number of notifications"],
    min_nontrivial=50,
    jobs=[dict(cmd="memseq", args={"prop": "C13"}, tiers=["quick", "thorough"], timeout=1500)],
)

CHECKS["C18"] = dict(
    title="Handles pin what they reference and report outdatedness truthfully",
    level="exploration",
    rule=("same sequence machinery as C05 with a handle bag: insert/get/remove handles are kept, cloned and dropped in scripted "
          "order. After EVERY step every live handle is re-read (key, value, weight unchanged) and is_outdated() is compared with "
          "'the id has had its leave event'; an LRU Evict event naming an id that was looked up and is still held is a violation; "
          "lookups must return the resident id. Non-trivial = a handle outlived its entry, or an LRU pin blocked an eviction, or an "
          "entry was evicted while a (non-pinning) handle was held; distinct = hash of (configuration, op sequence)."),
    exhaustive_part="every sequence of depth 3 (quick) / 4 (thorough) over the C18 alphabet, 5 algorithms",
    assumptions=MEMSEQ_ASSUME,
    min_nontrivial=50,
    jobs=[dict(cmd="memseq", args={"prop": "C18"}, tiers=["quick", "thorough"], timeout=1500)],
)

CHECKS["C14"] = dict(
    title="Victims are chosen as the configured eviction algorithm prescribes",
    level="exploration",
    rule=("single shard, single thread: every op sequence of depth 4 (quick) / 5 (thorough) over {insert(k in 0..4, w in {1,2}, "
          "low hint for LRU), get, get-and-hold + drop (LRU), remove, resize} (one level less for LRU's larger alphabet) on a "
          "capacity-3 cache per algorithm, plus seeded random sequences of 200..5000 ops over parameter variants (pool ratios, "
          "thresholds, capacities 2..21); each sequence ends with drop-all + evict_all so the complete internal order becomes "
          "observable. Oracle: per step, the ordered list of Evict ids from the listener equals the reference model's "
          "(harness/src/model.rs: FIFO, two-pool LRU with pinning, SIEVE, S3-FIFO, w-TinyLFU) and contains() agrees. "
          "Non-trivial = at least two evictions were compared; distinct = hash of (configuration, op sequence)."),
    exhaustive_part="every sequence of the stated depth over the stated alphabet, one configuration per algorithm",
    assumptions=["reference models were written from the published rules / doc comments and calibrated once on the unchanged tree (DESIGN.md C14)",
                 "the count-min sketch of w-TinyLFU is the same third-party crate with the same parameters (trusted base)",
                 "hash(key) == key"],
    min_nontrivial=50,
    jobs=[dict(cmd="c14", tiers=["quick", "thorough"], timeout=1500)],
)

LIN_ASSUME = [
    "histories are recorded at the client boundary with one global SeqCst counter (call stamp before, return stamp after)",
    "sequential model per key: register whose reads may miss; evict_all/resize have no model effect; clear resets every key",
    "WGL search budget 2e6 steps per key sub-history; exceeding it is inconclusive, never a verdict",
    "OS scheduling provides the interleavings (seeded jitter between ops); a pass covers only the interleavings observed",
]

CHECKS["C02"] = dict(
    title="In-memory cache is linearizable per key under concurrent use",
    level="exploration",
    rule=("histories = 2..5 (quick) / 2..8 (thorough) OS threads x 20..60 ops each over 3..6 keys on a fresh cache (5 algorithms "
          "with parameter variants, shards 1..4, capacity 2..9), ops insert/remove/get/contains/touch/get_or_fetch/clear/resize/"
          "evict_all with and without held handles (re-validated after every own op). Every key sub-history is checked for "
          "linearizability against the register-with-misses model; foreign values (embedded key != requested key) are flagged "
          "directly. Thorough adds the same workload under ThreadSanitizer. Non-trivial = the history contains at least one pair "
          "of overlapping conflicting operations of different threads on one key; distinct = hash of the global inv/ret event order."),
    assumptions=LIN_ASSUME,
    min_nontrivial=50,
    jobs=[dict(cmd="c02", tiers=["quick", "thorough"], timeout=1500),
          dict(cmd="c02", flavour="tsan", tiers=["thorough"], timeout=2400, shards=8, env={"TSAN_OPTIONS": "halt_on_error=1 second_deadlock_stack=1"})],
)
