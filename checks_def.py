"""Registry of the checks: which monitors (vh subcommands), flavours and shards decide each property."""

MEMSEQ_ASSUME = [
    "single-threaded sequences: every observation point is quiescent",
    "hash(key) == key (harness BuildHasher) so the shard of a key is key % shards",
    "per-shard capacities are measured through the public API on a fresh cache of the same configuration",
    "the LRU pin model of the ledger (looked up since the handle count was last zero) is the documented behaviour",
]

CHECKS = {}

CHECKS["C05"] = dict(
    title="Memory usage accounting is exact and capacity-bounded without over-eviction",
    level="exploration",
    rule=("cases = (a) measured shard-capacity splits for capacity 0..12 x shards 1..4 x 5 algorithms, (b) ALL op sequences of "
          "depth 3 (quick) / 4 (thorough) over a 26-symbol alphabet {insert k in 0..3 with w in {0,1,2,3,cap+1}, get-and-hold, touch, "
          "remove, drop handle, clear, resize, evict_all} for each algorithm (1 shard cap 4, 2 shards cap 5), (c) seeded random "
          "sequences of 20..400 ops over random configurations (capacity 0..14, shards 1..4, algorithm parameter variants). "
          "After EVERY step the ledger compares usage()/entries()/contains() with the resident set derived from leave events and "
          "judges necessity and sufficiency of each eviction. Non-trivial = the sequence caused at least one capacity eviction; "
          "distinct = hash of (configuration, op sequence). (d) quiescent points of multi-threaded runs (c13mt: 2..4 / 2..7 threads x "
          "100..600 ops): after join, usage() and entries() equal the total weight and number of the entries lookups still find."),
    exhaustive_part="part (b): every sequence of the stated depth over the stated alphabet is run",
    assumptions=MEMSEQ_ASSUME,
    min_nontrivial=50,
    jobs=[dict(cmd="memseq", args={"prop": "C05"}, tiers=["quick", "thorough"], timeout=1500),
          dict(cmd="memseq", args={"prop": "C05"}, flavour="miri", tier_arg="miri", tiers=["thorough"], timeout=3000),
          dict(cmd="c13mt", args={"prop": "C05"}, tiers=["quick", "thorough"], timeout=1500)],
)

CHECKS["C13"] = dict(
    title="Each entry leaves memory exactly once, with the right reason and disk hand-off",
    level="exploration",
    rule=("same sequence machinery as C05 with a recording Pipe installed and a listener that looks the leaving key up again from "
          "inside on_leave; alphabet adds kept handles, disk-only (filter-rejected) inserts and flush(). Ledger: every admitted id "
          "leaves exactly once by the time the cache is dropped, with the reason the operation implies, is not returned by the "
          "re-entrant lookup, Evict-reason ids are offered to the pipe exactly once in that operation, Replace/Remove/Clear ids never. "
          "Non-trivial = at least two different leave reasons occurred; distinct = hash of (configuration, op sequence). "
          "Multi-threaded part (c13mt): 2..4 (quick) / 2..7 (thorough) OS threads x 100..600 ops on one cache (5 algorithms with "
          "variants, shards 1..4, capacity 3..12, keys 3..8; insert incl. filtered, get-and-hold, clone, drop, remove, touch, "
          "evict_all, resize, clear); after join + clear + drop the conservation laws over unique insert ids are checked: exactly "
          "one leave event per admitted id, none for unknown ids, Evict ids offered to the pipe exactly once, Replace/Remove/Clear "
          "ids never, filtered ids exactly once, re-entrant lookup never returns the leaving id, reasons need a cause in the "
          "history; distinct = hash of the observed order of leave events. Thorough adds ThreadSanitizer and Miri runs."),
    exhaustive_part="every sequence of depth 3 (quick) / 4 (thorough) over the C13 alphabet, 5 algorithms",
    assumptions=MEMSEQ_ASSUME + ["disk-only (phantom) entries are judged on their single pipe offer only, not on the number of notifications"],
    min_nontrivial=50,
    jobs=[dict(cmd="memseq", args={"prop": "C13"}, tiers=["quick", "thorough"], timeout=1500),
          dict(cmd="memseq", args={"prop": "C13"}, flavour="miri", tier_arg="miri", tiers=["thorough"], timeout=3000),
          dict(cmd="c13mt", args={"prop": "C13"}, tiers=["quick", "thorough"], timeout=1500),
          dict(cmd="c13mt", args={"prop": "C13"}, flavour="tsan", tier_arg="quick", tiers=["thorough"], timeout=3000, shards=8, env={"TSAN_OPTIONS": "halt_on_error=1 second_deadlock_stack=1"}),
          dict(cmd="c13mt", args={"prop": "C13"}, flavour="miri", tier_arg="miri", tiers=["thorough"], timeout=3000)],
)

CHECKS["C18"] = dict(
    title="Handles pin what they reference and report outdatedness truthfully",
    level="exploration",
    rule=("same sequence machinery as C05 with a handle bag: insert/get/remove handles are kept, cloned and dropped in scripted "
          "order. After EVERY step every live handle is re-read (key, value, weight unchanged) and is_outdated() is compared with "
          "'the id has had its leave event'; an LRU Evict event naming an id that was looked up and is still held is a violation; "
          "lookups must return the resident id. Non-trivial = a handle outlived its entry, or an LRU pin blocked an eviction, or an "
          "entry was evicted while a (non-pinning) handle was held; distinct = hash of (configuration, op sequence). "
          "Multi-threaded part (c13mt): every thread re-validates every handle it holds (key, value, weight) after each of its "
          "ops while other threads replace / remove / clear / resize / evict; after all handles are dropped one more fitting "
          "insert must bring a single-shard cache within capacity (no leaked pin). Thorough adds ThreadSanitizer."),
    exhaustive_part="every sequence of depth 3 (quick) / 4 (thorough) over the C18 alphabet, 5 algorithms",
    assumptions=MEMSEQ_ASSUME,
    min_nontrivial=50,
    jobs=[dict(cmd="memseq", args={"prop": "C18"}, tiers=["quick", "thorough"], timeout=1500),
          dict(cmd="memseq", args={"prop": "C18"}, flavour="miri", tier_arg="miri", tiers=["thorough"], timeout=3000),
          dict(cmd="c13mt", args={"prop": "C18"}, tiers=["quick", "thorough"], timeout=1500),
          dict(cmd="c13mt", args={"prop": "C18"}, flavour="tsan", tier_arg="quick", tiers=["thorough"], timeout=3000, shards=8, env={"TSAN_OPTIONS": "halt_on_error=1 second_deadlock_stack=1"})],
)

CHECKS["C14"] = dict(
    title="Victims are chosen as the configured eviction algorithm prescribes",
    level="exploration",
    rule=("single shard, single thread: every op sequence of depth 4 (quick) / 5 (thorough) over {insert(k in 0..4, w in {1,2}, "
          "low hint for LRU), get, get-and-hold + drop (LRU), remove, resize} (one level less for LRU's larger alphabet) on a "
          "capacity-3 cache per algorithm, plus seeded random sequences of 200..5000 ops over parameter variants (pool ratios, "
          "thresholds, capacities 2..21); each sequence ends with drop-all + evict_all so the complete internal order becomes "
          "observable. Oracle: per step, the ordered list of Evict ids from the listener equals the reference model's "
          "(harness/src/model.rs: FIFO, two-pool LRU with pinning, SIEVE, S3-FIFO, w-TinyLFU) and contains() agrees. "
          "Non-trivial = at least two evictions were compared; distinct = hash of (configuration, op sequence)."),
    exhaustive_part="every sequence of the stated depth over the stated alphabet, one configuration per algorithm",
    assumptions=["reference models were written from the published rules / doc comments and calibrated once on the unchanged tree (DESIGN.md C14)",
                 "the count-min sketch of w-TinyLFU is the same third-party crate with the same parameters (trusted base)",
                 "hash(key) == key"],
    min_nontrivial=50,
    jobs=[dict(cmd="c14", tiers=["quick", "thorough"], timeout=1500),
          dict(cmd="c14", flavour="miri", tier_arg="miri", tiers=["thorough"], timeout=3000)],
)

LIN_ASSUME = [
    "histories are recorded at the client boundary with one global SeqCst counter (call stamp before, return stamp after)",
    "sequential model per key: register whose reads may miss; evict_all/resize have no model effect; clear resets every key",
    "WGL search budget 2e6 steps per key sub-history; exceeding it is inconclusive, never a verdict",
    "OS scheduling provides the interleavings (seeded jitter between ops); a pass covers only the interleavings observed",
]

CHECKS["C02"] = dict(
    title="In-memory cache is linearizable per key under concurrent use",
    level="exploration",
    rule=("histories = 2..5 (quick) / 2..8 (thorough) OS threads x 20..60 ops each over 3..6 keys on a fresh cache (5 algorithms "
          "with parameter variants, shards 1..4, capacity 2..9), ops insert/remove/get/contains/touch/get_or_fetch/clear/resize/"
          "evict_all with and without held handles (re-validated after every own op). Every key sub-history is checked for "
          "linearizability against the register-with-misses model; foreign values (embedded key != requested key) are flagged "
          "directly. Thorough adds the same workload under ThreadSanitizer. Non-trivial = the history contains at least one pair "
          "of overlapping conflicting operations of different threads on one key; distinct = hash of the global inv/ret event order. "
          "Second monitor (the stepped fetch-script engine of C06, run under this property): deterministic orderings of get_or_fetch "
          "stages with insert / remove, including an origin future that itself inserts (and removes) the key during its final poll; "
          "what a lookup finally finds must be what a sequential execution of the completed operations leaves (a superseded fetch "
          "result that surfaces is a non-linearizable read)."),
    assumptions=LIN_ASSUME,
    min_nontrivial=50,
    jobs=[dict(cmd="c02", tiers=["quick", "thorough"], timeout=1500),
          dict(cmd="c02", flavour="tsan", tier_arg="quick", tiers=["thorough"], timeout=2400, env={"TSAN_OPTIONS": "halt_on_error=1 second_deadlock_stack=1"}),
          dict(cmd="c02", flavour="miri", tier_arg="miri", tiers=["thorough"], timeout=3000),
          dict(cmd="fetchseq", args={"prop": "C02"}, tiers=["quick", "thorough"], timeout=1800)],
)

HYB_ASSUME = [
    "single sequential client: every operation completes before the next starts, so the most recent completed update of a key is unambiguous",
    "values are self-validating (key, writer, version, length, PRNG payload, xxh64): the oracle never trusts foyer about what a value is",
    "buffers are sized so that the documented overload shedding (queue threshold, flush buffer full) cannot occur",
    "each key keeps one placement advice class for the whole run",
    "without the tombstone log, a removed key (or a key whose newest version can never be stored) reappearing after a reopen is not judged",
    "the real psync engine on a real FsDevice directory (tmpfs) sits behind the recording/gating io wrapper (feature `verif`)",
]

CHECKS["C01"] = dict(
    title="Hybrid cache never returns a stale or foreign value",
    level="exploration",
    rule=("seeded scripted histories built from window gadgets (entry only in the write queue while overwritten/removed; device "
          "batch N held in flight while batch N+1 is queued; older copy on disk with a newer version that cannot be stored; remove "
          "while on disk / queued; graceful close+reopen; clear; storage-writer inserts; get_or_fetch with an origin that returns a "
          "fresh source-of-truth version) over 3..5 keys, both write policies, 5 algorithms with parameter variants, tombstone log "
          "on/off, compression none/zstd/lz4 (hook), 1..3 flushers, block sizes 16..64 KiB, 4..16 blocks, value sizes 28 B .. "
          "beyond the per-entry limit, fixed per-key placement advice (default / in-memory / on-disk). Oracle after every lookup: "
          "miss, or bit-exact value whose embedded key is the requested key and whose (writer, version) is the most recent "
          "completed insert not followed by remove/clear. Non-trivial = the script had a disk hit or a lookup while a gate was "
          "held; distinct = hash of (configuration, script)."),
    assumptions=HYB_ASSUME,
    min_nontrivial=20,
    jobs=[dict(cmd="c01", tiers=["quick", "thorough"], timeout=2400),
          dict(cmd="c01", flavour="asan", tier_arg="quick", tiers=["thorough"], timeout=3000, env={"ASAN_OPTIONS": "detect_leaks=0:halt_on_error=1:abort_on_error=0"})],
)

FETCH_ASSUME = [
    "two current-thread runtimes (callers / fetch tasks) are stepped by the harness: scripts are deterministic and 'pending although idle' is decided on logical steps, not wall-clock",
    "lookup ('disk') and origin futures are harness-owned gates driven through the public get_or_fetch_inner entry point the hybrid cache itself uses",
    "expected caller outcomes come from a sequential model of the documented coalescing protocol (harness/src/fetchseq.rs)",
]

CHECKS["C06"] = dict(
    title="Concurrent fetches of one key are coalesced and every caller is answered",
    level="exploration",
    rule=("ALL scripts of length 5 (quick) / 6 (thorough) over the 11 actions {caller arrives: lookup-only | lookup+origin | origin-only; "
          "lookup resolves hit | miss | error; origin resolves ok | error; insert; remove; drop oldest pending caller} on one key for "
          "the three lock modes of the lookup path (FIFO, SIEVE, LRU), every 7th additionally ending with the fetch runtime being "
          "shut down, plus seeded random scripts of 6..19 actions over two keys and all five algorithms. After every action both "
          "runtimes are run until idle and every caller's outcome (pending / entry id / none / origin error / lookup error / "
          "cancelled) is compared with the protocol model; at the end every gate is released: a caller still pending is a hang; "
          "origin fetches in flight at once per key <= 1 (without insert/remove), executed origin fetches == model, final cache "
          "content == model. Non-trivial = a caller joined a fetch already in flight; distinct = hash(algorithm, script)."),
    exhaustive_part="all scripts of the stated length over the stated action alphabet",
    assumptions=FETCH_ASSUME,
    min_nontrivial=50,
    jobs=[dict(cmd="fetchseq", args={"prop": "C06"}, tiers=["quick", "thorough"], timeout=1800)],
)

CHECKS["C11"] = dict(
    title="An explicit insert is not overwritten by an older in-flight fetch",
    level="exploration",
    rule=("same engine as C06 restricted to scripts that contain an insert: ALL scripts of length 5 (quick) / 6 (thorough) over 9 "
          "actions (arrivals, lookup hit/miss, origin ok/error, insert, remove) plus random longer ones; after an insert took over "
          "a pending fetch, the superseded lookup/origin futures are resolved with poison values. Oracle: every waiter of the "
          "superseded fetch receives the inserted entry; poison values never reach a caller; at the end a lookup finds exactly "
          "what the protocol model says is cached (late-overwrite detection). Non-trivial = an insert happened while a fetch of "
          "the key was pending; distinct = hash(algorithm, script)."),
    exhaustive_part="all scripts of the stated length that contain an insert",
    assumptions=FETCH_ASSUME,
    min_nontrivial=50,
    jobs=[dict(cmd="fetchseq", args={"prop": "C11"}, tiers=["quick", "thorough"], timeout=1800)],
)

CHECKS["C16"] = dict(
    title="User callbacks run outside cache locks, so re-entrant use cannot deadlock",
    level="exploration",
    rule=("seeded sequences of 6..35 operations (insert, get, remove, touch, drop handle, clear, evict_all, resize, get_or_fetch ok/"
          "error, insert-while-fetch-pending) on a single-shard cache (every key has hash 0) whose event listener, weighter, "
          "filter, key destructor and value destructor each call back into the same cache (lookup / insert / remove / touch / "
          "contains, per-sequence plan, depth <= 2), five algorithms. Oracle: parking_lot's deadlock detector (logical cycle "
          "detection, polled every 25 ms) - any reported cycle is a violation with thread backtraces; 120 s without progress and "
          "without a report is inconclusive. Non-trivial = at least one re-entrant call from a callback completed; distinct = "
          "hash of the case."),
    assumptions=["std::sync locks (block manager) are outside parking_lot's detector: only the no-progress watchdog (inconclusive) covers them",
                 "the harness is built with foyer's `deadlock` feature"],
    min_nontrivial=50,
    jobs=[dict(cmd="c16", tiers=["quick", "thorough"], timeout=1800)],
)

CHECKS["C07"] = dict(
    title="What the flusher writes is exactly what recovery and lookups read back",
    level="exploration",
    rule=("seeded plans of 2..8 write batches shaped with the flush hold: single entry, exactly one blob index worth of entries "
          "(170 / 341), index+1..3, exactly one block of one-page entries, batches spanning blocks, random; entry sizes 28 B, "
          "exactly one page, one page + 1, the largest storable entry, random; block sizes 16/32/64 KiB and 1 MiB, blob index "
          "4/8 KiB, 1..2 flushers, compression none/zstd/lz4, overwrites of earlier keys. At every quiescent point: the write "
          "log is page aligned, inside blocks and free of overlapping writes within a block generation; every key the disk tier "
          "claims (may_contains) loads its latest version. After a graceful close the device is read by the independent parser "
          "(harness/src/image.rs): every version written appears exactly once, regions do not overlap, indexed entries decode; "
          "after reopen every key's lookup equals what the parser reconstructs under the documented stop rule. Non-trivial = at "
          "least two entries were parsed; distinct = hash(configuration, batches)."),
    assumptions=HYB_ASSUME + ["the independent parser was written from the on-disk format, not from foyer's scanner; zstd/lz4 are the same third-party crates"],
    min_nontrivial=10,
    jobs=[dict(cmd="c07", tiers=["quick", "thorough"], timeout=2400)],
)

CHECKS["C10"] = dict(
    title="With the tombstone log, a flushed delete survives any number of restarts",
    level="exploration",
    rule=("seeded plans: 300..1000 (quick) / 600..3000 (thorough) keys inserted and flushed, then 1..5 cycles of {delete 1/3/100/"
          "255/256/257/300/511/513/700 random present keys (within the log capacity), wait, re-insert up to 5 previously deleted "
          "keys, wait, then either graceful close+reopen or reopen of a copy of the device directory taken without closing}; "
          "1..2 flushers. After every reopen ALL keys are looked up: a deleted-and-not-re-inserted key must be absent, a "
          "re-inserted key must read its new version, nothing may read a wrong version. Non-trivial = deletes were flushed and "
          "at least one reopen happened; distinct = hash of the plan."),
    assumptions=HYB_ASSUME,
    min_nontrivial=10,
    jobs=[dict(cmd="c10", tiers=["quick", "thorough"], timeout=2400)],
)

CHECKS["C12"] = dict(
    title="Disk writes happen exactly when policy and placement advice say so",
    level="exploration",
    rule=("seeded scripts of 6..19 steps over 5 keys with a fixed placement advice each (default / in-memory-only / on-disk): "
          "insert_with_properties, get, get_or_fetch, memory eviction, remove, close+reopen; both policies, flush_on_close on/off, "
          "admission filter admitting all or rejecting a third of the hashes, devices of 8 blocks (no block can be in probation). "
          "After EVERY step the store is drained and the device image is parsed independently; the multiset of entry copies that "
          "newly appeared is compared with what policy + advice + admission prescribe for that step (extra copy = unexpected "
          "write, absent copy = missing write); the origin future must not be polled when memory or disk served the lookup; "
          "on-disk advised entries must not stay in memory. Non-trivial = the script caused at least one entry copy to be "
          "written; distinct = hash(configuration, script)."),
    assumptions=HYB_ASSUME + ["memory is large enough that nothing is evicted unless the script evicts explicitly, so the resident set is known exactly"],
    min_nontrivial=20,
    jobs=[dict(cmd="c12", tiers=["quick", "thorough"], timeout=2400)],
)

CHECKS["C08"] = dict(
    title="Every storable key/value round-trips through the disk format bit-exactly",
    level="exploration",
    rule=("part A: Code impls for u8..u128/usize/i8..i128/isize/f32/f64 (MIN, MAX, 0, 1, halves, 40 random bit patterns each), "
          "bool, String (empty, multi-byte), Vec<u8>, Bytes of lengths 0..19 (quick) / 0..69 (thorough) and page/64 KiB boundaries: "
          "decode(encode(x)) == x, bytes written == estimated_size(), and encoding into EVERY shorter destination among the first "
          "40, the last 3 and every 997th length must fail with BufferSizeLimit (never Ok, never another kind). part B: the real "
          "pipeline insert -> flusher -> device -> load for values Vec<u8>/String/Bytes x keys u64/String x compression None/Zstd/"
          "Lz4 (hook) with lengths 0,1,2,7,8,100, page-60..page+1, the per-entry maximum -200..+1 page, 2x maximum and random, "
          "compressible and incompressible: the loaded value equals the original or the entry is absent as a whole; an entry whose "
          "raw size fits a block must not be absent; after the run every entry on the device is read back by the independent "
          "reader: header key_len + value_len + 36 equals the indexed length and the (decompressed) value / key bytes equal what "
          "the Code impls produce for the originals; part A also decodes through readers that return 1/3/7/64/1000 bytes per "
          "read. Non-trivial = a value round-tripped; distinct = hash(type, value or length)."),
    assumptions=["quick tier: built-in Code impls (foyer's `serde` feature off); the thorough tier repeats the whole check with a second build of the harness that enables foyer/serde, where Code is the blanket bincode impl",
                 "String payloads are ASCII in the pipeline part (multi-byte strings are covered in part A)"],
    min_nontrivial=50,
    jobs=[dict(cmd="c08", tiers=["quick", "thorough"], timeout=2400),
          dict(cmd="c08", flavour="asan", tier_arg="quick", tiers=["thorough"], timeout=3000, env={"ASAN_OPTIONS": "detect_leaks=0:halt_on_error=1:abort_on_error=0"}),
          dict(cmd="c08", flavour="serde", tiers=["thorough"], timeout=3000)],
)

CHECKS["C15"] = dict(
    title="A graceful close persists what memory held",
    level="exploration",
    rule=("seeded plans: resident sets of 0, 1, the flush-buffer limit and random sizes in between; per key default or in-memory-only "
          "advice, a third of the keys with an older copy already on disk; both policies, flush_on_close on (3/4) and off, 1..2 "
          "flushers, tombstone log on/off, 16 blocks so that nothing is reclaimed; one plan in six drops the cache without close. "
          "Oracle: with flush_on_close every key resident (memory().contains) right before close() and not in-memory-only reads its "
          "latest version after reopen; in-memory-only entries are not served from disk; with flush_on_close off the set of entry "
          "copies on the device (independent parser) is identical before and after close(); a second close() succeeds and issues "
          "no device write; insert/evict/remove after close do not panic and issue no device write; after drop-without-close the "
          "reopened store serves no wrong version. Non-trivial = at least one entry was resident at close; distinct = hash(plan)."),
    assumptions=HYB_ASSUME,
    min_nontrivial=20,
    jobs=[dict(cmd="c15", tiers=["quick", "thorough"], timeout=2400)],
)

CHECKS["C17"] = dict(
    title="Hash collisions between distinct keys never alias their entries",
    level="exploration",
    rule=("three monitors (the third: the stepped fetch-script engine of C06 on two keys that share their full 64-bit hash - arrivals, "
          "lookup / origin resolutions, inserts incl. filtered ones, removes in seeded orders; every caller must be answered with "
          "an entry of its own key and the protocol's value) with a harness BuildHasher (hash = key / 4: keys 0..3 share the full 64-bit hash, other keys only the shard): "
          "(a) the C02 concurrent-history monitor on the memory cache (linearizability per key + foreign-value detection, incl. "
          "get_or_fetch whose in-flight table is also keyed by hash), (b) the C01 scripted-history monitor on the hybrid cache "
          "(write queue, disk index by hash alone, one key on disk while its colliding partner is only queued, overwrite/remove of "
          "one of the pair, close+reopen, both policies). Oracle: a lookup for k returns a value whose embedded key is k, or a "
          "miss (memory monitor: also linearizable per key); a lookup that hangs with an idle device or fails is a violation. "
          "Staleness among a key's own versions in the hybrid cache is C01's statement and is judged there. Non-trivial / "
          "distinct as in C02 and C01."),
    assumptions=LIN_ASSUME + HYB_ASSUME,
    min_nontrivial=20,
    jobs=[dict(cmd="c17mem", tiers=["quick", "thorough"], timeout=1500),
          dict(cmd="c17hyb", tiers=["quick", "thorough"], timeout=2400),
          dict(cmd="c17mem", flavour="tsan", tier_arg="quick", tiers=["thorough"], timeout=3000, shards=8, env={"TSAN_OPTIONS": "halt_on_error=1 second_deadlock_stack=1"}),
          dict(cmd="fetchseq", args={"prop": "C17"}, tiers=["quick", "thorough"], timeout=1800)],
)


CHECKS["C04"] = dict(
    title="Recovery after a crash at any point is consistent",
    level="fault_enumeration",
    rule=("workloads = seeded single-client sequences of 8..32 (quick) / 8..48 (thorough) steps per restart cycle over 3..8 keys: insert "
          "(28 B .. 3 pages), overwrite, remove, wait(), flush hold/release (multi-entry batches), memory eviction; 1..3 (quick) / "
          "1..4 (thorough) crash/restart cycles; both write policies, tombstone log on/off, blob index 4/8 KiB, blocks 16/32/64 KiB, "
          "1..2 flushers, compression none/zstd/lz4. The recording io engine gives the totally ordered device write log; wait() "
          "returns are ack markers with the log position. Crash images = base image + EVERY prefix of the issued writes (strided "
          "only beyond 120 / 400 writes) + page-granular tears of the next write (page prefixes, two seeded page subsets, "
          "last-page-only), plus crash states in which all completed writes and a seeded subset of the writes in flight at the same moment "
          "(2..6 in flight, decided by the issue / completion stamps) are on the device. Every image is reopened in quiet mode by the real recovery code and every key is looked up. Oracle "
          "from the op log: a hit must be a version whose insert was issued before the crash point; while no block was reclaimed a "
          "key whose latest acknowledged op is an insert reads that version or a later issued one (never older, never a miss "
          "unless a delete was issued later), an acknowledged delete with the log on never yields an older version; reopen must "
          "not fail or panic. One crash image (seeded) is the state the next cycle restarts from, the op history carries over. "
          "evaluations = crash images reopened and judged; non-trivial = image on which some key had an acknowledged op; distinct = "
          "hash of the image content."),
    exhaustive_part="per workload: every write-boundary crash point of the recorded log (when the log has at most 120 / 400 writes)",
    assumptions=HYB_ASSUME[:2] + [
        "a crash preserves a prefix of the device writes in issue order, the last one possibly torn at page granularity (the property's fault model); additionally all completed writes plus any subset of the writes in flight; pages are atomic",
        "the device is sized so that nothing is reclaimed, except in 1 plan of 6 where reclaim is provoked and only the weak clause is judged from the first clean page on",
        "under write-on-eviction an insert counts as acknowledged only when memory was evicted before the wait()",
        "the real psync engine on a real FsDevice directory (tmpfs) sits behind the recording io wrapper (feature `verif`)",
    ],
    min_nontrivial=20,
    jobs=[dict(cmd="c04", tiers=["quick", "thorough"], timeout=3000)],
)

CHECKS["C03"] = dict(
    title="Corrupted or misdirected disk bytes never surface as a cached value",
    level="fault_enumeration",
    rule=("images = device directories produced by seeded real workloads (5..14 keys quick / 5..24 thorough, entries 28 B .. 3 pages, "
          "overwrites, removes, multi-entry blobs via the flush hold, tombstone log on/off, compression none/zstd/lz4 via the hook, "
          "blob index 4/8 KiB, 1..2 flushers, 1 in 4 on a wrapped device whose blocks were reclaimed and reused). For EVERY page of "
          "every partition file (sampled only beyond 320 / 4096 pages): bit flip at a seeded offset, bit flip inside the used bytes, "
          "zero page, swap with another page of the same block, swap with the same and with a random page of another block, "
          "replacement by up to two older generations of the page taken from the write log; plus targeted flips in every blob-index "
          "field (checksum, count, per-entry hash/sequence/offset/len) and every entry-header field (key_len, value_len, hash, "
          "sequence, checksum, magic, compression incl. every other valid tag) located by the independent parser, flips in entry "
          "bodies and tombstone slots, plus seeded sets of 2..4 faults. Each faulted image is reopened in quiet mode and ALL keys "
          "are looked up. Second monitor: on the live store, reads of each served entry are perturbed (header/body flips, zero "
          "page, io error, another entry's page = misdirected read). Oracle: miss, error, or a bit-exact self-validating value "
          "whose embedded key is the requested key and whose version was really inserted; reopen must succeed; no panic / abort. "
          "evaluations = faulted images reopened + live faulted lookups; non-trivial = the fault changed at least one answer "
          "relative to the unfaulted image; distinct = hash(configuration, workload, fault set)."),
    exhaustive_part="single-page fault kinds over every page of each image (images with at most 320 / 4096 pages)",
    assumptions=HYB_ASSUME[1:2] + [
        "values are Vec<u8>, keys u64 (the built-in Code impls); other value types share the decode entry points but are not faulted here",
        "multi-fault sets are sampled, not enumerated",
        "a process abort is attributed to the case recorded in the progress file before the case started",
    ],
    min_nontrivial=20,
    jobs=[dict(cmd="c03", tiers=["quick", "thorough"], timeout=3000),
          dict(cmd="c03", flavour="asan", tier_arg="quick", tiers=["thorough"], timeout=3000, env={"ASAN_OPTIONS": "detect_leaks=0:halt_on_error=1:abort_on_error=0"})],
)

CHECKS["C09"] = dict(
    title="Reusing disk space never damages live entries and never stalls writers",
    level="exploration",
    rule=("runs = (C, one run in eight) burst mode: a device filled with never-overwritten one-page entries (a quarter to a sixth of them admitted by the reinsertion filter) receives 2..4 flush batches of 2..4 blocks each, queued behind the flush hold, so that several block writers wait for clean blocks while the reclaimer reinserts; judged on progress, write-log discipline and survival of the admitted entries at the final quiescent point; (A) single sequential client writing 3..6 device capacities (capped at 700 / 2400 ops) of inserts (28 B .. 2 pages), "
          "overwrites, removes, lookups and memory evictions over a live set of at most 1/8 of the device, (B) 3..6 owner tasks on a "
          "4-worker runtime, each the only writer of its keys, same op mix; devices of 2*(flushers+threshold)+{0,1,2,4,8} blocks of "
          "16/32/64 KiB, flushers 1..3, reclaimers 1..2, clean-block threshold 1..2, reinsertion filter none / every 2nd / every 3rd "
          "hash, tombstone log on/off; device writes and reads are held at the io gates and released in seeded shuffled order. "
          "Oracles: every lookup hit is bit-exact, for the requested key and (mode A, and own keys in mode B) the most recent "
          "completed insert not followed by a remove; write log: no overlapping writes inside a block generation, no clean page "
          "while a write to the block is in flight, every generation starts at blob 0; bounded progress: an op / wait() / close() "
          "pending although the io wrapper was idle for 20 s with all gates released is a stall (busy for 240 s = inconclusive); at "
          "the final quiescent point every key admitted by the reinsertion filter reads its latest version; with 1 flusher, 1 "
          "reclaimer, no deletes and the default pickers a block completely written before another one was started is cleaned "
          "first. Non-trivial = at least two blocks were reclaimed and reused; distinct = hash of the observed write completion "
          "order and clean order."),
    assumptions=HYB_ASSUME[1:3] + [
        "clean_block_threshold = 0 is excluded (the engine never reclaims by construction)",
        "the reinsertion clause is judged only at the final quiescent point (phase-separated)",
        "write-on-insertion policy, so that every insert reaches the disk tier",
        "client-side backpressure: clients call wait() before more than a quarter of the device is queued for the disk tier and the io gates open at the same bound, so a single flush batch never spans most of the device (a batch that does is reclaimed while it is still being written - observed, see DESIGN.md section 7)",
    ],
    min_nontrivial=10,
    jobs=[dict(cmd="c09", tiers=["quick", "thorough"], timeout=3000),
          dict(cmd="c09", flavour="asan", tier_arg="quick", tiers=["thorough"], timeout=3000, env={"ASAN_OPTIONS": "detect_leaks=0:halt_on_error=1:abort_on_error=0"}),
          dict(cmd="c09", flavour="tsan", tier_arg="quick", tiers=["thorough"], timeout=3000, env={"TSAN_OPTIONS": "halt_on_error=1 second_deadlock_stack=1"})],
)
