//! Stand-in for the `foyer` facade crate exposing only the memory tier, so that the memory-only
//! monitors of /verif/harness compile unchanged without foyer-storage (whose dependency `fastant`
//! executes `cpuid` in a constructor, which Miri cannot interpret).
pub use foyer_common::{
    event::{Event, EventListener},
    properties::{Age, Hint, Location, Source},
};
pub use foyer_memory::*;
