//! `vhm`: the memory-tier monitors of /verif/harness (shared sources) as a binary that Miri can
//! interpret: memseq (C05/C13/C18 ledger), c14 (reference eviction models), c02 (concurrent
//! histories + linearizability).  Same argv / output contract as `vh`.
#![allow(dead_code)]
use std::collections::BTreeMap;

#[path = "../../harness/src/ledger.rs"]
pub mod ledger;
#[path = "../../harness/src/mem.rs"]
pub mod mem;
#[path = "../../harness/src/memseq.rs"]
pub mod memseq;
#[path = "../../harness/src/model.rs"]
pub mod model;
#[path = "../../harness/src/c13mt.rs"]
pub mod c13mt;
#[path = "../../harness/src/c14.rs"]
pub mod c14;
#[path = "../../harness/src/c02.rs"]
pub mod c02;
#[path = "../../harness/src/lin.rs"]
pub mod lin;
#[path = "../../harness/src/out.rs"]
pub mod out;
#[path = "../../harness/src/rng.rs"]
pub mod rng;

pub fn panic_message(e: &Box<dyn std::any::Any + Send>) -> String {
    if let Some(s) = e.downcast_ref::<&str>() {
        s.to_string()
    } else if let Some(s) = e.downcast_ref::<String>() {
        s.clone()
    } else {
        "non-string panic payload".to_string()
    }
}

pub fn normalise(msg: &str) -> String {
    let mut out = String::new();
    let mut last_hash = false;
    for c in msg.chars().take(160) {
        if c.is_ascii_digit() {
            if !last_hash {
                out.push('#');
            }
            last_hash = true;
        } else {
            last_hash = false;
            out.push(if c.is_whitespace() { '_' } else { c });
        }
    }
    out
}

fn main() {
    let args: Vec<String> = std::env::args().collect();
    if args.len() < 2 {
        eprintln!("usage: vhm <subcommand> key=value ...");
        std::process::exit(2);
    }
    let cmd = args[1].clone();
    let kv: BTreeMap<String, String> =
        args[2..].iter().filter_map(|a| a.split_once('=').map(|(k, v)| (k.to_string(), v.to_string()))).collect();
    let get = |k: &str, d: &str| kv.get(k).cloned().unwrap_or_else(|| d.to_string());
    let seed: u64 = get("seed", "1").parse().unwrap();
    let tier = get("tier", "miri");
    let shard: usize = get("shard", "0").parse().unwrap();
    let nshards: usize = get("nshards", "1").parse().unwrap();
    let out = get("out", "/dev/stdout");
    std::panic::set_hook(Box::new(|_| {}));
    let res = match cmd.as_str() {
        "memseq" => {
            let prop = match get("prop", "C05").as_str() {
                "C05" => memseq::Prop::C05,
                "C13" => memseq::Prop::C13,
                "C18" => memseq::Prop::C18,
                p => panic!("unknown prop {p}"),
            };
            memseq::run(prop, seed, &tier, shard, nshards)
        }
        "c13mt" => c13mt::run(&get("prop", "C13"), seed, &tier, shard, nshards),
        "c14" => c14::run(seed, &tier, shard, nshards),
        "c02" => c02::run(seed, &tier, shard, nshards, false),
        "c17mem" => c02::run(seed, &tier, shard, nshards, true),
        other => {
            eprintln!("unknown subcommand {other}");
            std::process::exit(2);
        }
    };
    res.write(&out);
}
