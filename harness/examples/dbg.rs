use vh::hscript::*;
fn main() {
    let path = std::env::args().nth(1).unwrap();
    let from: usize = std::env::args().nth(2).map(|s| s.parse().unwrap()).unwrap_or(0);
    let v: serde_json::Value = serde_json::from_str(&std::fs::read_to_string(path).unwrap()).unwrap();
    let cfg: vh::hyb::HCfg = serde_json::from_value(v["replay"]["cfg"].clone()).unwrap();
    let script: Vec<HOp> = serde_json::from_value(v["replay"]["script"].clone()).unwrap();
    let rt = tokio::runtime::Builder::new_multi_thread().worker_threads(3).enable_all().build().unwrap();
    rt.block_on(async {
        let mut ex = Exec::new(cfg.clone()).await.unwrap();
        for (i, op) in script.iter().enumerate() {
            let o = ex.step(op).await;
            if i >= from {
                let adm = ex.ctl.admissions.lock().len();
                let k = key_of(op);
                let mc = k.map(|k| ex.cache().storage().may_contains(&k));
                println!("{i} {op:?} -> {:?} src={:?} writes={} admissions={} may_contains={:?} mem={:?} usage={}", o.seen, o.source, o.writes_after, adm, mc, o.in_memory_after, ex.cache().memory().usage());
            }
            if i > from + 30 { break; }
        }
        ex.finish().await;
    });
}
