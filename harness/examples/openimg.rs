use vh::hyb::{self, HCfg, Controls};
fn main() {
    let d = std::env::args().nth(1).unwrap();
    let v: serde_json::Value = serde_json::from_str(&std::fs::read_to_string(format!("{d}/cfg.json")).unwrap()).unwrap();
    let cfg: HCfg = serde_json::from_value(v["cfg"].clone()).unwrap();
    let keys = v["keys"].as_u64().unwrap();
    println!("cfg {:?}", cfg);
    let rt = tokio::runtime::Builder::new_multi_thread().worker_threads(2).enable_all().build().unwrap();
    rt.block_on(async {
        let ctl = Controls::new();
        println!("opening");
        let c = match tokio::time::timeout(std::time::Duration::from_secs(5), hyb::open(&cfg, std::path::Path::new(&d), &ctl, foyer::RecoverMode::Quiet)).await {
            Ok(c) => c.unwrap(),
            Err(_) => { println!("OPEN HANGS; reads {} writes {}", ctl.io.reads.lock().len(), ctl.io.write_count()); 
                for r in ctl.io.reads.lock().iter() { println!("  read part {} off {} len {}", r.partition, r.offset, r.len); }
                return; }
        };
        println!("opened; writes so far {}", ctl.io.write_count());
        for k in 0..keys {
            match tokio::time::timeout(std::time::Duration::from_secs(5), c.get(&k)).await {
                Ok(r) => println!("get {k}: {:?}", hyb::see(k, r)),
                Err(_) => println!("get {k}: HANGS"),
            }
        }
        match tokio::time::timeout(std::time::Duration::from_secs(5), c.close()).await { Ok(_) => println!("closed"), Err(_) => println!("CLOSE HANGS") }
    });
    rt.shutdown_background();
}
