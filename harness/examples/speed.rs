use std::time::Instant;
use vh::mem::*;
fn main() {
    for algo in ALGOS {
        let cfg = MemCfg { algo: AlgoCfg::default_for(algo), capacity: 4, shards: 1, pipe: false, reenter: false, div: 1, universe: 3 };
        let t = Instant::now();
        for _ in 0..2000 { let mut h = MemHarness::new(cfg.clone()); let mut o = vec![]; h.finish(&mut o); }
        println!("{algo:?} build+drop {:?}/iter", t.elapsed() / 2000);
        let t = Instant::now();
        let mut h = MemHarness::new(cfg.clone());
        let mut o = vec![];
        for i in 0..2000u64 { h.exec(&Op::InsertDrop{k:i%3,w:1,low:false,phantom:false}, &mut o); o.clear(); }
        println!("{algo:?} insertdrop {:?}/iter", t.elapsed() / 2000);
        let t = Instant::now();
        for _ in 0..200 { h.exec(&Op::Resize{cap:4}, &mut o); o.clear(); }
        println!("{algo:?} resize {:?}/iter", t.elapsed() / 200);
    }
}
