use std::collections::BTreeMap;

use vh::{memseq, out::ShardResult};

fn main() {
    let args: Vec<String> = std::env::args().collect();
    if args.len() < 2 {
        eprintln!("usage: vh <subcommand> key=value ...");
        std::process::exit(2);
    }
    let cmd = args[1].clone();
    let kv: BTreeMap<String, String> = args[2..]
        .iter()
        .filter_map(|a| a.split_once('=').map(|(k, v)| (k.to_string(), v.to_string())))
        .collect();
    let get = |k: &str, d: &str| kv.get(k).cloned().unwrap_or_else(|| d.to_string());
    let seed: u64 = get("seed", "1").parse().unwrap();
    let tier = get("tier", "quick");
    let shard: usize = get("shard", "0").parse().unwrap();
    let nshards: usize = get("nshards", "1").parse().unwrap();
    let out = get("out", "/dev/stdout");

    vh::raise_nofile();
    if get("loud", "0") == "0" {
        vh::quiet_panics();
    }
    // Every multi-threaded monitor also runs under parking_lot's deadlock detector (foyer is built with its `deadlock`
    // feature): a lock cycle among foyer's parking_lot locks ends the shard with exit code 86 and the thread backtraces.
    if cmd != "c16" {
        std::thread::spawn(|| loop {
            std::thread::sleep(std::time::Duration::from_millis(200));
            let cycles = parking_lot::deadlock::check_deadlock();
            if !cycles.is_empty() {
                eprintln!("PARKING_LOT DEADLOCK DETECTED: {} cycle(s)", cycles.len());
                for (i, threads) in cycles.iter().enumerate() {
                    for t in threads {
                        eprintln!("cycle {i} thread {:?}\n{:?}", t.thread_id(), t.backtrace());
                    }
                }
                std::process::exit(86);
            }
        });
    }
    let res: ShardResult = match cmd.as_str() {
        "memseq" => {
            let prop = match get("prop", "C05").as_str() {
                "C05" => memseq::Prop::C05,
                "C13" => memseq::Prop::C13,
                "C18" => memseq::Prop::C18,
                p => panic!("unknown prop {p}"),
            };
            if let Some(path) = kv.get("replay") {
                let v: serde_json::Value = serde_json::from_str(&std::fs::read_to_string(path).unwrap()).unwrap();
                let cfg = serde_json::from_value(v["cfg"].clone()).unwrap();
                let ops = serde_json::from_value(v["ops"].clone()).unwrap();
                memseq::replay(prop, cfg, ops)
            } else {
                memseq::run(prop, seed, &tier, shard, nshards)
            }
        }
        "c14" => {
            if let Some(path) = kv.get("replay") {
                let v: serde_json::Value = serde_json::from_str(&std::fs::read_to_string(path).unwrap()).unwrap();
                vh::c14::replay(
                    serde_json::from_value(v["cfg"].clone()).unwrap(),
                    serde_json::from_value(v["ops"].clone()).unwrap(),
                )
            } else {
                vh::c14::run(seed, &tier, shard, nshards)
            }
        }
        "c02" | "c17mem" => {
            let collide = cmd == "c17mem";
            if let Some(path) = kv.get("replay") {
                let v: serde_json::Value = serde_json::from_str(&std::fs::read_to_string(path).unwrap()).unwrap();
                vh::c02::replay(serde_json::from_value(v["cfg"].clone()).unwrap(), if collide { "C17" } else { "C02" })
            } else {
                vh::c02::run(seed, &tier, shard, nshards, collide)
            }
        }
        "fetchseq" => {
            let prop = get("prop", "C06");
            if let Some(path) = kv.get("replay") {
                let v: serde_json::Value = serde_json::from_str(&std::fs::read_to_string(path).unwrap()).unwrap();
                vh::fetchseq::replay(
                    &prop,
                    serde_json::from_value(v["algo"].clone()).unwrap(),
                    serde_json::from_value(v["script"].clone()).unwrap(),
                )
            } else {
                vh::fetchseq::run(&prop, seed, &tier, shard, nshards)
            }
        }
        "c16" => {
            let replay = kv.get("replay").map(|path| {
                let v: serde_json::Value = serde_json::from_str(&std::fs::read_to_string(path).unwrap()).unwrap();
                serde_json::from_value(v["case"].clone()).unwrap()
            });
            vh::c16::run(seed, &tier, shard, nshards, &out, replay)
        }
        "c01" | "c17hyb" => {
            let collide = cmd == "c17hyb";
            if let Some(path) = kv.get("replay") {
                let v: serde_json::Value = serde_json::from_str(&std::fs::read_to_string(path).unwrap()).unwrap();
                vh::c01::replay(
                    if collide { "C17" } else { "C01" },
                    serde_json::from_value(v["cfg"].clone()).unwrap(),
                    serde_json::from_value(v["script"].clone()).unwrap(),
                )
            } else {
                vh::c01::run(seed, &tier, shard, nshards, collide)
            }
        }
        "c03" => {
            if let Some(path) = kv.get("replay") {
                let v: serde_json::Value = serde_json::from_str(&std::fs::read_to_string(path).unwrap()).unwrap();
                vh::c03::replay(serde_json::from_value(v["plan"].clone()).unwrap(), v["at"].clone())
            } else {
                vh::c03::run(seed, &tier, shard, nshards)
            }
        }
        "c04" => {
            if let Some(path) = kv.get("replay") {
                let v: serde_json::Value = serde_json::from_str(&std::fs::read_to_string(path).unwrap()).unwrap();
                vh::c04::replay(serde_json::from_value(v["plan"].clone()).unwrap())
            } else {
                vh::c04::run(seed, &tier, shard, nshards)
            }
        }
        "c09" => {
            if let Some(path) = kv.get("replay") {
                let v: serde_json::Value = serde_json::from_str(&std::fs::read_to_string(path).unwrap()).unwrap();
                vh::c09::replay(serde_json::from_value(v["plan"].clone()).unwrap())
            } else {
                vh::c09::run(seed, &tier, shard, nshards)
            }
        }
        "c13mt" => {
            let prop = get("prop", "C13");
            if let Some(path) = kv.get("replay") {
                let v: serde_json::Value = serde_json::from_str(&std::fs::read_to_string(path).unwrap()).unwrap();
                vh::c13mt::replay(&prop, serde_json::from_value(v["cfg"].clone()).unwrap())
            } else {
                vh::c13mt::run(&prop, seed, &tier, shard, nshards)
            }
        }
        "c07" => vh::c07::run(seed, &tier, shard, nshards),
        "c10" => vh::c10::run(seed, &tier, shard, nshards),
        "c12" => vh::c12::run(seed, &tier, shard, nshards),
        "c15" => vh::c15::run(seed, &tier, shard, nshards),
        "c08" => vh::c08::run(seed, &tier, shard, nshards),
        other => {
            eprintln!("unknown subcommand {other}");
            std::process::exit(2);
        }
    };
    res.write(&out);
}
