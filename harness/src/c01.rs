//! C01 / C17(hybrid): scripted single-client histories over the window gadgets, all configurations.
use serde_json::json;

use crate::{
    hscript::{Exec, Gen, HOp, Loc, Observed, Oracle},
    hyb::{Comp, HCfg, Policy},
    mem::{AlgoCfg, ALGOS},
    out::ShardResult,
    rng::{fnv, Rng},
};

pub struct CaseResult {
    pub observed: Vec<Observed>,
    pub oracle: Oracle,
}

pub async fn run_script(cfg: &HCfg, script: &[HOp]) -> Result<CaseResult, String> {
    let mut ex = Exec::new(cfg.clone()).await.map_err(|e| format!("open failed: {e}"))?;
    let mut oracle = Oracle::default();
    let mut observed = vec![];
    for (i, op) in script.iter().enumerate() {
        let flags = (ex.flush_held, ex.writes_held);
        let is_lookup = matches!(op, HOp::Get { .. } | HOp::GetOrFetch { .. });
        let o = tokio::time::timeout(std::time::Duration::from_secs(if is_lookup { 20 } else { 60 }), ex.step(op)).await;
        let o = match o {
            Ok(o) => o,
            Err(_) => {
                // a lookup never depends on flusher progress: pending for 20 s with an idle device and open io gates is a hang
                let io = &ex.ctl.io;
                let idle = io.inflight.load(std::sync::atomic::Ordering::SeqCst) == 0 && io.held_writes().is_empty() && io.held_reads() == 0;
                ex.release_all();
                if is_lookup && idle {
                    oracle.findings.push(("lookup-hangs".into(), format!("{op:?} did not return within 20 s although no device io was in flight and no io gate was closed"), i));
                    // the wedged instance may also hang in close(): leave it behind
                    std::mem::forget(ex);
                    return Ok(CaseResult { observed, oracle });
                }
                return Err(format!("step {i} {op:?} did not return within 60s (inconclusive)"));
            }
        };
        oracle.step(i, cfg, &o, flags);
        let stop = ex.cache.is_none();
        observed.push(o);
        if stop {
            break;
        }
    }
    ex.finish().await;
    Ok(CaseResult { observed, oracle })
}

pub fn gen_cfg(rng: &mut Rng, i: usize, collide: bool) -> HCfg {
    let algo = ALGOS[i % 5];
    let variants = AlgoCfg::variants(algo);
    let mut cfg = HCfg::small(variants[rng.usize(variants.len())]);
    cfg.policy = if rng.chance(1, 2) { Policy::WriteOnEviction } else { Policy::WriteOnInsertion };
    cfg.tombstone = rng.chance(1, 2);
    cfg.compression = *rng.pick(&[Comp::None, Comp::None, Comp::Zstd, Comp::Lz4]);
    cfg.flushers = 1 + rng.usize(3);
    cfg.mem_shards = 1 + rng.usize(2);
    cfg.mem_capacity = *rng.pick(&[2_000, 6_000, 20_000]);
    cfg.block_size = *rng.pick(&[16 * 1024, 32 * 1024, 64 * 1024]);
    cfg.blocks = *rng.pick(&[4, 6, 8, 16]);
    cfg.clean_block_threshold = 1;
    // overload shedding must be impossible: buffers far larger than anything a script queues
    cfg.buffer_pool_size = 1024 * 1024 * cfg.flushers;
    if collide {
        cfg.hash_div = 4;
    }
    cfg
}

pub fn run(seed: u64, tier: &str, shard: usize, nshards: usize, collide: bool) -> ShardResult {
    let prop = if collide { "C17" } else { "C01" };
    let mut res = ShardResult::new(&format!("c01-{prop}"), seed);
    let mut rt = tokio::runtime::Builder::new_multi_thread().worker_threads(3).enable_all().build().unwrap();
    let total = if tier == "thorough" { 40_000 } else { 3_200 };
    let mut rng = Rng::derive(seed, 0xC01_000 + shard as u64 + if collide { 7777 } else { 0 });
    // bulk family: wrapped device + graceful reopen (a few plans per shard, they are long)
    if !collide {
        let nb = if tier == "thorough" { 24 } else { 3 };
        for _ in 0..nb {
            let plan = crate::c01bulk::gen_plan(&mut rng);
            crate::c01bulk::run_one(&rt, &plan, &mut res, prop);
        }
    }
    for i in 0..total / nshards.max(1) {
        // a closed HybridCache keeps its partition files open for as long as its runtime lives: recycle the runtime regularly
        if i % 25 == 24 {
            std::mem::replace(&mut rt, tokio::runtime::Builder::new_multi_thread().worker_threads(3).enable_all().build().unwrap()).shutdown_background();
        }
        let cfg = gen_cfg(&mut rng, i, collide);
        let max = cfg.max_entry_size();
        let nkeys = 3 + rng.usize(3);
        let keys: Vec<u64> = if collide {
            // keys 0..4 share the 64-bit hash 0; 4 and 5 share hash 1
            (0..nkeys as u64).collect()
        } else {
            (0..nkeys as u64).map(|k| k + 10 * (shard as u64 % 3)).collect()
        };
        let mut locs = std::collections::BTreeMap::new();
        for k in &keys {
            locs.insert(*k, match rng.below(6) {
                0 => Loc::InMem,
                1 => Loc::OnDisk,
                _ => Loc::Default,
            });
        }
        let oversize = max + 1 + rng.usize(8192);
        let g = Gen {
            keys: keys.clone(),
            sizes: vec![28, 29, 100, 1000, 3000, 4060, 4096, 5000, max / 2, oversize],
            locs,
            allow_reopen: true,
            allow_clear: rng.chance(1, 3),
            allow_writer: true,
        };
        let ng = 2 + rng.usize(4);
        let script = g.script(&mut rng, ng);
        let r = rt.block_on(run_script(&cfg, &script));
        res.evaluations += 1;
        match r {
            Err(why) => {
                res.inconclusive += 1;
                res.inconclusive_notes.push(why);
            }
            Ok(cr) => {
                res.count("ops", cr.observed.len() as u64);
                res.count("judged_lookups", cr.oracle.judged_lookups);
                res.count("unjudged_lookups", cr.oracle.unjudged_lookups);
                for (k, v) in &cr.oracle.hits_by_source {
                    res.count(&format!("hits_src_{k}"), *v);
                }
                for (k, v) in &cr.oracle.window_classes {
                    res.count(&format!("window_{k}"), *v);
                }
                res.count(&format!("cfg_policy_{:?}", cfg.policy), 1);
                res.count(&format!("cfg_comp_{:?}", cfg.compression), 1);
                res.count(&format!("cfg_tombstone_{}", cfg.tombstone), 1);
                res.count(&format!("cfg_algo_{:?}", cfg.algo.algo), 1);
                let disk_hits = cr.oracle.hits_by_source.get("Disk").copied().unwrap_or(0);
                if disk_hits > 0 || cr.oracle.window_classes.keys().any(|k| k.contains("held")) {
                    res.nontrivial_hashes.insert(fnv(format!("{cfg:?}{script:?}").as_bytes()));
                    if res.samples.len() < 2 {
                        res.sample(json!({"cfg":cfg,"script":script.iter().take(30).collect::<Vec<_>>(),
                            "lookups": cr.observed.iter().filter(|o| matches!(o.op, HOp::Get{..}|HOp::GetOrFetch{..})).take(12)
                               .map(|o| json!({"op":o.op,"seen":o.seen,"source":o.source})).collect::<Vec<_>>()}));
                    }
                }
                // C17 is about aliasing only: a value of another key (or garbage), a hung or failing lookup. Staleness of a
                // key's own versions is C01's statement and is judged (with its known findings) by the C01 run.
                let relevant = |sig: &str| !collide || sig.starts_with("foreign") || sig.starts_with("lookup-hangs") || sig.starts_with("lookup-error") || sig.starts_with("reopen-failed");
                for (sig, detail, i) in cr.oracle.findings.iter().filter(|f| relevant(&f.0)).take(1) {
                    res.violate(
                        format!("{prop}:{sig}:{}", crate::hscript::policy_name(cfg.policy)),
                        format!("{detail} (step {i})"),
                        json!({"check":"c01","prop":prop,"cfg":cfg,"script":script,"step_index":i,
                               "observed": cr.observed.iter().take(i+1).collect::<Vec<_>>()}),
                    );
                }
            }
        }
    }
    rt.shutdown_background();
    res
}

pub fn replay(prop: &str, cfg: HCfg, script: Vec<HOp>) -> ShardResult {
    let mut res = ShardResult::new("c01-replay", 0);
    let rt = tokio::runtime::Builder::new_multi_thread().worker_threads(3).enable_all().build().unwrap();
    for _ in 0..5 {
        match rt.block_on(run_script(&cfg, &script)) {
            Ok(cr) => {
                res.evaluations += 1;
                for (sig, detail, i) in cr.oracle.findings.iter().take(1) {
                    res.violate(
                        format!("{prop}:{sig}:{}", crate::hscript::policy_name(cfg.policy)),
                        format!("{detail} (step {i})"),
                        json!({"cfg":cfg,"script":script}),
                    );
                }
            }
            Err(e) => {
                res.inconclusive += 1;
                res.inconclusive_notes.push(e);
            }
        }
        if !res.violations.is_empty() {
            break;
        }
    }
    res
}
