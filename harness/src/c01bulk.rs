//! C01, bulk family: the device wraps (blocks are reclaimed and reused) under a long stream of
//! one-page entries in multi-blob blocks, then the cache is closed gracefully and reopened.  The
//! stream is laid out so that the new life of the recycled first block ends on (or near) a blob
//! boundary of its previous life, and a few keys have an older version in the leftover region and a
//! newer version in a block that has been reclaimed meanwhile.  Oracle: the exact per-key oracle of
//! hscript (a lookup returns the most recent completed insert or nothing).
use serde_json::json;

use crate::{
    hscript::{Exec, HOp, Loc, Oracle},
    hyb::{Comp, HCfg, Policy, PAGE},
    mem::{Algo, AlgoCfg},
    out::ShardResult,
    rng::{fnv, Rng},
};

pub struct Plan {
    pub cfg: HCfg,
    pub script: Vec<HOp>,
    pub doubled: Vec<u64>,
    pub total: usize,
}

pub fn gen_plan(rng: &mut Rng) -> Plan {
    let mut cfg = HCfg::small(AlgoCfg::default_for(Algo::Fifo));
    cfg.policy = if rng.chance(3, 4) { Policy::WriteOnInsertion } else { Policy::WriteOnEviction };
    cfg.mem_capacity = 8 * 1024;
    cfg.blob_index_size = 4096;
    cfg.block_size = 1024 * 1024;
    cfg.blocks = 4 + rng.usize(2);
    cfg.flushers = 1;
    cfg.compression = Comp::None;
    cfg.tombstone = rng.chance(1, 3);
    cfg.buffer_pool_size = 8 * 1024 * 1024;
    cfg.clean_block_threshold = 1;
    let index_cap = (cfg.blob_index_size - 12) / 24;
    let pages = cfg.block_size / PAGE;
    let mut per_block = 0usize;
    let mut left = pages;
    while left > 1 {
        let n = (left - 1).min(index_cap);
        per_block += n;
        left -= n + 1;
    }
    // the recycled first block receives j full blob indexes worth of entries (+/- a few)
    let j = 1 + rng.usize(2);
    let jitter = if rng.chance(1, 3) { rng.usize(4) } else { 0 };
    let total = cfg.blocks * per_block + (index_cap * j).min(per_block - 1) - jitter;
    // doubled keys: older version somewhere in the first block, newer version in the second block
    let nd = 4 + rng.usize(8);
    let mut first: Vec<usize> = (0..nd).map(|_| rng.usize(per_block)).collect();
    first.sort();
    first.dedup();
    let second: Vec<usize> = first.iter().map(|_| per_block + rng.usize(per_block)).collect();
    let mut script = vec![];
    let mut doubled = vec![];
    let mut next_unique = 10_000u64;
    let mut since_wait = 0usize;
    for pos in 0..total {
        let k = if let Some(i) = first.iter().position(|p| *p == pos) {
            doubled.push(i as u64);
            i as u64
        } else if let Some(i) = second.iter().position(|p| *p == pos) {
            i as u64
        } else {
            next_unique += 1;
            next_unique
        };
        // one page on the device whatever the size (keeps the blob geometry exact)
        script.push(HOp::Insert { k, size: 600 + (pos % 5) * 300, loc: Loc::Default });
        since_wait += 1;
        if since_wait >= 60 + rng.usize(60) {
            if cfg.policy == Policy::WriteOnEviction {
                script.push(HOp::EvictMem);
            }
            script.push(HOp::Wait);
            since_wait = 0;
        }
    }
    if cfg.policy == Policy::WriteOnEviction {
        script.push(HOp::EvictMem);
    }
    script.push(HOp::Wait);
    script.push(HOp::CloseReopen);
    for k in 0..first.len() as u64 {
        script.push(HOp::Get { k });
    }
    // updates right after the restart must supersede what was recovered (sequence counter restored above everything on
    // disk): remove / overwrite keys among the newest entries written before the close
    for d in 0..4u64 {
        let k = next_unique.saturating_sub(d * 7);
        if d % 2 == 0 {
            script.push(HOp::Remove { k });
            script.push(HOp::Get { k });
        } else {
            script.push(HOp::Insert { k, size: 700, loc: Loc::Default });
            script.push(HOp::EvictMem);
            script.push(HOp::Wait);
            script.push(HOp::Get { k });
        }
    }
    script.push(HOp::Wait);
    for d in 0..4u64 {
        script.push(HOp::EvictMem);
        script.push(HOp::Get { k: next_unique.saturating_sub(d * 7) });
    }
    // a sample of the unique keys, oldest and newest
    for d in [1u64, 2, 3, 100, 171, 172, 254, 255] {
        script.push(HOp::Get { k: 10_000 + d });
        script.push(HOp::Get { k: next_unique.saturating_sub(d) });
    }
    Plan { cfg, script, doubled, total }
}

pub fn run_one(rt: &tokio::runtime::Runtime, plan: &Plan, res: &mut ShardResult, prop: &str) {
    let r = rt.block_on(async {
        let mut ex = Exec::new(plan.cfg.clone()).await.map_err(|e| format!("open failed: {e}"))?;
        let mut oracle = Oracle::default();
        let mut observed = vec![];
        for (i, op) in plan.script.iter().enumerate() {
            let o = match tokio::time::timeout(std::time::Duration::from_secs(120), ex.step(op)).await {
                Ok(o) => o,
                Err(_) => {
                    ex.release_all();
                    return Err(format!("step {i} {op:?} did not return within 120s (inconclusive)"));
                }
            };
            oracle.step(i, &plan.cfg, &o, (false, false));
            if matches!(op, HOp::Get { .. } | HOp::CloseReopen) {
                observed.push(o);
            }
            if ex.cache.is_none() {
                break;
            }
        }
        ex.finish().await;
        Ok((oracle, observed))
    });
    res.evaluations += 1;
    match r {
        Err(why) => {
            res.inconclusive += 1;
            res.inconclusive_notes.push(why);
        }
        Ok((oracle, observed)) => {
            res.count("bulk_plans", 1);
            res.count("bulk_inserts", plan.total as u64);
            res.count("judged_lookups", oracle.judged_lookups);
            for (k, v) in &oracle.hits_by_source {
                res.count(&format!("hits_src_{k}"), *v);
            }
            let cleans = observed.last().map(|o| o.cleans_after).unwrap_or(0);
            res.count("bulk_blocks_reclaimed", cleans as u64);
            if cleans >= 1 {
                res.nontrivial_hashes.insert(fnv(format!("{:?}{}{:?}", plan.cfg, plan.total, plan.doubled).as_bytes()));
            }
            for (sig, detail, i) in oracle.findings.iter().take(1) {
                res.violate(
                    format!("{prop}:{sig}:{}", crate::hscript::policy_name(plan.cfg.policy)),
                    format!("bulk plan ({} inserts of one-page entries into {} blocks of 1 MiB, close + reopen): {detail} (step {i})", plan.total, plan.cfg.blocks),
                    json!({"check":"c01","prop":prop,"cfg":plan.cfg,"script":plan.script,"step_index":i}),
                );
            }
        }
    }
}
