//! C02 (and the memory half of C17): concurrent histories against the in-memory cache, recorded at
//! the client boundary and checked per key for linearizability (register whose reads may miss).
use std::sync::{
    atomic::{AtomicU64, Ordering},
    Arc, Barrier,
};

use foyer::{Cache, CacheBuilder, CacheEntry, CacheProperties};
use serde::{Deserialize, Serialize};
use serde_json::json;

use crate::{
    lin::{self, KEvent, KOp, Verdict},
    mem::{Algo, AlgoCfg, DivHasher, Tv, ALGOS},
    out::ShardResult,
    rng::{fnv, Rng},
};

type MCache = Cache<u64, Tv, DivHasher, CacheProperties>;
type MEntry = CacheEntry<u64, Tv, DivHasher, CacheProperties>;

#[derive(Clone, Debug, Serialize, Deserialize)]
pub struct Cfg {
    pub algo: AlgoCfg,
    pub capacity: usize,
    pub shards: usize,
    pub threads: usize,
    pub ops: usize,
    pub keys: Vec<u64>,
    pub div: u64,
    pub with_fetch: bool,
    pub with_global: bool,
    pub hold_handles: bool,
    pub seed: u64,
}

#[derive(Clone, Debug, Serialize, Deserialize, PartialEq)]
pub enum COp {
    Insert { k: u64, w: usize },
    Remove { k: u64 },
    Get { k: u64 },
    Contains { k: u64 },
    Touch { k: u64 },
    GetOrFetch { k: u64 },
    Clear,
    Resize { cap: usize },
    EvictAll,
    DropHandle,
}

#[derive(Clone, Debug, Serialize, Deserialize, PartialEq)]
pub enum CRes {
    Done,
    Wrote(u64),
    Hit { id: u64, val_key: u64, entry_key: u64 },
    Miss,
    Bool(bool),
    /// get_or_fetch: returned id, the caller's own candidate id
    Fetched { id: u64, own: u64, val_key: u64 },
    Err(String),
}

#[derive(Clone, Debug, Serialize, Deserialize)]
pub struct CEvent {
    pub thread: u32,
    pub idx: u32,
    pub op: COp,
    pub inv: u64,
    pub ret: u64,
    pub res: CRes,
}

pub fn gen_program(rng: &mut Rng, cfg: &Cfg) -> Vec<COp> {
    (0..cfg.ops)
        .map(|_| {
            let k = *rng.pick(&cfg.keys);
            match rng.below(100) {
                0..=27 => COp::Insert { k, w: 1 + rng.usize(2) },
                28..=39 => COp::Remove { k },
                40..=64 => COp::Get { k },
                65..=70 => COp::Contains { k },
                71..=76 => COp::Touch { k },
                77..=86 => {
                    if cfg.with_fetch {
                        COp::GetOrFetch { k }
                    } else {
                        COp::Get { k }
                    }
                }
                87..=92 => COp::DropHandle,
                93..=94 => {
                    if cfg.with_global {
                        COp::Clear
                    } else {
                        COp::Get { k }
                    }
                }
                95..=96 => {
                    if cfg.with_global {
                        COp::Resize { cap: 1 + rng.usize(cfg.capacity * 2 + 1) }
                    } else {
                        COp::Insert { k, w: 1 }
                    }
                }
                _ => {
                    if cfg.with_global {
                        COp::EvictAll
                    } else {
                        COp::Remove { k }
                    }
                }
            }
        })
        .collect()
}

pub struct History {
    pub events: Vec<CEvent>,
    pub handle_errors: Vec<String>,
}

pub fn run_history(cfg: &Cfg, programs: &[Vec<COp>], rt: &tokio::runtime::Runtime) -> History {
    let cache: MCache = CacheBuilder::new(cfg.capacity)
        .with_shards(cfg.shards)
        .with_eviction_config(cfg.algo.eviction_config())
        .with_hash_builder(DivHasher { div: cfg.div.max(1) })
        .with_weighter(|_: &u64, v: &Tv| v.w)
        .build();
    let clock = Arc::new(AtomicU64::new(1));
    let barrier = Arc::new(Barrier::new(programs.len()));
    let mut joins = vec![];
    for (t, prog) in programs.iter().enumerate() {
        let cache = cache.clone();
        let clock = clock.clone();
        let barrier = barrier.clone();
        let prog = prog.clone();
        let handle = rt.handle().clone();
        let hold = cfg.hold_handles;
        let seed = cfg.seed;
        joins.push(std::thread::spawn(move || {
            let _g = handle.enter();
            let mut rng = Rng::derive(seed, 0x7000 + t as u64);
            let mut events = Vec::with_capacity(prog.len());
            let mut bag: Vec<(MEntry, u64, u64)> = vec![];
            let mut errors = vec![];
            let mut counter = 0u64;
            barrier.wait();
            for (i, op) in prog.iter().enumerate() {
                // seeded jitter between operations (outside any foyer code)
                match rng.below(8) {
                    0 => std::thread::yield_now(),
                    1 => {
                        for _ in 0..rng.below(200) {
                            std::hint::spin_loop();
                        }
                    }
                    _ => {}
                }
                let mut keep: Option<MEntry> = None;
                let inv = clock.fetch_add(1, Ordering::SeqCst);
                let res = match op {
                    COp::Insert { k, w } => {
                        counter += 1;
                        let id = ((t as u64 + 1) << 32) | counter;
                        let e = cache.insert(*k, Tv { key: *k, id, w: *w, phantom: false });
                        keep = Some(e);
                        CRes::Wrote(id)
                    }
                    COp::Remove { k } => match cache.remove(k) {
                        Some(e) => {
                            let r = CRes::Hit { id: e.value().id, val_key: e.value().key, entry_key: *e.key() };
                            keep = Some(e);
                            r
                        }
                        None => CRes::Miss,
                    },
                    COp::Get { k } => match cache.get(k) {
                        Some(e) => {
                            let r = CRes::Hit { id: e.value().id, val_key: e.value().key, entry_key: *e.key() };
                            keep = Some(e);
                            r
                        }
                        None => CRes::Miss,
                    },
                    COp::Contains { k } => CRes::Bool(cache.contains(k)),
                    COp::Touch { k } => CRes::Bool(cache.touch(k)),
                    COp::GetOrFetch { k } => {
                        counter += 1;
                        let own = ((t as u64 + 1) << 32) | counter;
                        let kk = *k;
                        let fut = cache.get_or_fetch(k, move || async move {
                            tokio::task::yield_now().await;
                            Ok::<_, anyhow::Error>(Tv { key: kk, id: own, w: 1, phantom: false })
                        });
                        match handle.block_on(fut) {
                            Ok(e) => {
                                let r = CRes::Fetched { id: e.value().id, own, val_key: e.value().key };
                                keep = Some(e);
                                r
                            }
                            Err(e) => CRes::Err(format!("{e}")),
                        }
                    }
                    COp::Clear => {
                        cache.clear();
                        CRes::Done
                    }
                    COp::Resize { cap } => {
                        let _ = cache.resize(*cap);
                        CRes::Done
                    }
                    COp::EvictAll => {
                        cache.evict_all();
                        CRes::Done
                    }
                    COp::DropHandle => {
                        if !bag.is_empty() {
                            let j = rng.usize(bag.len());
                            bag.swap_remove(j);
                        }
                        CRes::Done
                    }
                };
                let ret = clock.fetch_add(1, Ordering::SeqCst);
                if let Some(e) = keep {
                    if hold && rng.chance(1, 2) {
                        let (k, id) = (*e.key(), e.value().id);
                        bag.push((e, k, id));
                    }
                }
                // re-validate held handles
                for (e, k, id) in bag.iter() {
                    if *e.key() != *k || e.value().key != *k || e.value().id != *id {
                        errors.push(format!(
                            "thread {t}: handle first seen as (key {k}, id {id}) now reads (key {}, value.key {}, id {})",
                            e.key(),
                            e.value().key,
                            e.value().id
                        ));
                    }
                }
                events.push(CEvent { thread: t as u32, idx: i as u32, op: op.clone(), inv, ret, res });
            }
            drop(bag);
            (events, errors)
        }));
    }
    let mut events = vec![];
    let mut handle_errors = vec![];
    for j in joins {
        let (e, errs) = match j.join() {
            Ok(x) => x,
            Err(p) => std::panic::resume_unwind(p),
        };
        events.extend(e);
        handle_errors.extend(errs);
    }
    events.sort_by_key(|e| e.inv);
    History { events, handle_errors }
}

pub struct Judgement {
    pub verdicts: Vec<(u64, Verdict, u64)>,
    pub per_key: std::collections::BTreeMap<u64, Vec<KEvent>>,
    pub foreign: Vec<String>,
    pub overlapping_conflicts: u64,
    pub order_hash: u64,
}

pub fn judge(cfg: &Cfg, h: &History, budget: u64) -> Judgement {
    let mut foreign = vec![];
    let mut per_key: std::collections::BTreeMap<u64, Vec<KEvent>> = Default::default();
    for k in &cfg.keys {
        per_key.insert(*k, vec![]);
    }
    for e in &h.events {
        let mk = |op| KEvent { op, inv: e.inv, ret: e.ret, thread: e.thread };
        let key_of = |op: &COp| match op {
            COp::Insert { k, .. }
            | COp::Remove { k }
            | COp::Get { k }
            | COp::Contains { k }
            | COp::Touch { k }
            | COp::GetOrFetch { k } => Some(*k),
            _ => None,
        };
        if let Some(k) = key_of(&e.op) {
            match &e.res {
                CRes::Hit { val_key, entry_key, .. } if *val_key != k || *entry_key != k => {
                    foreign.push(format!("{:?} for key {k} returned an entry of key {entry_key} (value written for key {val_key})", e.op))
                }
                CRes::Fetched { val_key, .. } if *val_key != k => {
                    foreign.push(format!("{:?} for key {k} returned a value written for key {val_key}", e.op))
                }
                _ => {}
            }
        }
        match (&e.op, &e.res) {
            (COp::Insert { k, .. }, CRes::Wrote(id)) => per_key.get_mut(k).unwrap().push(mk(KOp::Write(*id))),
            (COp::Remove { k }, CRes::Hit { id, .. }) => per_key.get_mut(k).unwrap().push(mk(KOp::RemoveHit(*id))),
            (COp::Remove { k }, CRes::Miss) => per_key.get_mut(k).unwrap().push(mk(KOp::Reset)),
            (COp::Get { k }, CRes::Hit { id, .. }) => per_key.get_mut(k).unwrap().push(mk(KOp::ReadHit(*id))),
            (COp::Contains { k }, CRes::Bool(true)) | (COp::Touch { k }, CRes::Bool(true)) => {
                per_key.get_mut(k).unwrap().push(mk(KOp::Present))
            }
            (COp::GetOrFetch { k }, CRes::Fetched { id, own, .. }) => {
                let op = if id == own { KOp::FetchOwn(*id) } else { KOp::ReadHit(*id) };
                per_key.get_mut(k).unwrap().push(mk(op))
            }
            (COp::Clear, _) => {
                for v in per_key.values_mut() {
                    v.push(mk(KOp::Reset));
                }
            }
            _ => {}
        }
    }
    let mut overlapping_conflicts = 0u64;
    let mut verdicts = vec![];
    for (k, evs) in per_key.iter() {
        for (i, a) in evs.iter().enumerate() {
            for b in evs.iter().skip(i + 1) {
                let overlap = a.inv < b.ret && b.inv < a.ret;
                let writes = |o: &KOp| !matches!(o, KOp::ReadHit(_) | KOp::Present);
                if overlap && a.thread != b.thread && (writes(&a.op) || writes(&b.op)) {
                    overlapping_conflicts += 1;
                }
            }
        }
        let (v, steps) = lin::check(evs, budget);
        verdicts.push((*k, v, steps));
    }
    let order: Vec<u8> = h.events.iter().flat_map(|e| [e.thread as u8, e.idx as u8]).collect();
    // the interleaving class: order of invocations AND returns
    let mut stamps: Vec<(u64, u8, u8, u8)> = vec![];
    for e in &h.events {
        stamps.push((e.inv, e.thread as u8, e.idx as u8, 0));
        stamps.push((e.ret, e.thread as u8, e.idx as u8, 1));
    }
    stamps.sort();
    let mut bytes: Vec<u8> = stamps.iter().flat_map(|s| [s.1, s.2, s.3]).collect();
    bytes.extend(order);
    Judgement { verdicts, per_key, foreign, overlapping_conflicts, order_hash: fnv(&bytes) }
}

/// Human-readable classification of a non-linearizable key sub-history (used in the violation detail
/// and signature): value from nowhere, stale read, or unexplained.
pub fn explain(evs: &[KEvent]) -> (String, String) {
    let written = |v: u64| evs.iter().find(|e| matches!(e.op, KOp::Write(x) | KOp::FetchOwn(x) if x == v));
    for r in evs {
        let v = match r.op {
            KOp::ReadHit(v) | KOp::RemoveHit(v) => v,
            _ => continue,
        };
        match written(v) {
            None => {
                return (
                    "value-from-nowhere".into(),
                    format!("{r:?} observed value {v} that no completed insert or own fetch of this history wrote"),
                )
            }
            Some(w) => {
                if w.inv > r.ret {
                    return ("value-from-future".into(), format!("{r:?} observed {v} before its write {w:?} was invoked"));
                }
                for u in evs {
                    let supersedes = match u.op {
                        KOp::Write(x) | KOp::FetchOwn(x) => x != v,
                        KOp::RemoveHit(_) | KOp::Reset => true,
                        _ => false,
                    };
                    if supersedes && w.ret < u.inv && u.ret < r.inv {
                        return (
                            "stale-read".into(),
                            format!("{r:?} observed {v} (written by {w:?}) although {u:?} completed in between"),
                        );
                    }
                }
            }
        }
    }
    for p in evs.iter().filter(|e| matches!(e.op, KOp::Present)) {
        // present although a reset/remove completed after every write that completed before it
        let _ = p;
    }
    ("unexplained".into(), "no single stale/foreign read found; the combination of operations has no linearization".into())
}

pub fn one(cfg: &Cfg, rt: &tokio::runtime::Runtime, res: &mut ShardResult, prop: &str) {
    let mut rng = Rng::derive(cfg.seed, 0xC02);
    let programs: Vec<Vec<COp>> = (0..cfg.threads).map(|_| gen_program(&mut rng, cfg)).collect();
    let h = run_history(cfg, &programs, rt);
    let j = judge(cfg, &h, 2_000_000);
    res.evaluations += 1;
    res.count("events", h.events.len() as u64);
    res.count("overlapping_conflicting_pairs", j.overlapping_conflicts);
    res.count(&format!("histories_{:?}", cfg.algo.algo), 1);
    let hits = h.events.iter().filter(|e| matches!(e.res, CRes::Hit { .. } | CRes::Fetched { .. })).count();
    res.count("lookup_hits", hits as u64);
    if j.overlapping_conflicts > 0 {
        res.nontrivial_hashes.insert(j.order_hash ^ fnv(format!("{:?}", cfg.algo.algo).as_bytes()));
    }
    let replay = || json!({"check":"c02","prop":prop,"cfg":cfg,"programs":programs,"history":h.events});
    for (k, v, steps) in &j.verdicts {
        res.count("lin_search_steps", *steps);
        match v {
            Verdict::Linearizable => res.count("key_histories_linearizable", 1),
            Verdict::Inconclusive => {
                res.inconclusive += 1;
                res.count("key_histories_inconclusive", 1);
            }
            Verdict::NotLinearizable => {
                let (class, why) = explain(&j.per_key[k]);
                res.violate(
                    format!("{prop}:not-linearizable:{class}"),
                    format!("key {k} ({:?}): no linearization of its sub-history ({} ops): {why}", cfg.algo.algo, j.per_key[k].len()),
                    replay(),
                );
            }
        }
    }
    for f in j.foreign.iter().take(1) {
        res.violate(format!("{prop}:foreign-value:{:?}", cfg.algo.algo), f.clone(), replay());
    }
    for f in h.handle_errors.iter().take(1) {
        res.violate(format!("{prop}:handle-changed:{:?}", cfg.algo.algo), f.clone(), replay());
    }
    for e in h.events.iter().filter(|e| matches!(e.res, CRes::Err(_))).take(1) {
        res.violate(format!("{prop}:fetch-error:{:?}", cfg.algo.algo), format!("{e:?}"), replay());
    }
    if res.samples.is_empty() && j.overlapping_conflicts > 0 {
        res.sample(json!({"cfg":cfg,"history_prefix":h.events.iter().take(24).collect::<Vec<_>>()}));
    }
}

pub fn run(seed: u64, tier: &str, shard: usize, nshards: usize, collide: bool) -> ShardResult {
    let prop = if collide { "C17" } else { "C02" };
    let mut res = ShardResult::new(prop, seed);
    let rt = tokio::runtime::Builder::new_multi_thread().worker_threads(2).enable_all().build().unwrap();
    let total = if tier == "miri" { 48 } else if tier == "thorough" { 60_000 } else { 8_000 };
    let mut rng = Rng::derive(seed, 0xC02_0000 + shard as u64);
    for i in 0..total / nshards.max(1) {
        let algo = ALGOS[i % ALGOS.len()];
        let variants = AlgoCfg::variants(algo);
        let acfg = variants[rng.usize(variants.len())];
        let shards = 1 + rng.usize(4);
        let nkeys = 3 + rng.usize(4);
        let (div, keys): (u64, Vec<u64>) = if collide {
            // groups of 4 keys share the full 64-bit hash; some keys only share the shard
            let div = 4;
            let mut keys: Vec<u64> = (0..nkeys as u64).collect();
            keys.push(4 * shards as u64); // same shard as key 0..3, different hash
            (div, keys)
        } else if rng.chance(1, 4) {
            // full 64-bit hash collisions between neighbouring keys
            (2, (0..nkeys as u64).collect())
        } else {
            (1, (0..nkeys as u64).collect())
        };
        let cfg = Cfg {
            algo: acfg,
            capacity: 2 + rng.usize(8),
            shards,
            threads: 2 + rng.usize(if tier == "miri" { 2 } else if tier == "thorough" { 7 } else { 3 }),
            ops: if tier == "miri" { 6 + rng.usize(8) } else { 20 + rng.usize(41) },
            keys,
            div,
            with_fetch: rng.chance(2, 3),
            with_global: rng.chance(1, 2),
            hold_handles: rng.chance(1, 2),
            seed: rng.next(),
        };
        match std::panic::catch_unwind(std::panic::AssertUnwindSafe(|| {
            let mut local = ShardResult::new("tmp", 0);
            one(&cfg, &rt, &mut local, prop);
            local
        })) {
            Ok(local) => res.merge_counts(local),
            Err(e) => {
                let msg = crate::panic_message(&e);
                res.evaluations += 1;
                res.violate(
                    format!("{prop}:panic:{}:{:?}", crate::normalise(&msg), cfg.algo.algo),
                    format!("panic during concurrent history: {msg}"),
                    json!({"check":"c02","prop":prop,"cfg":cfg}),
                );
            }
        }
    }
    let _ = Algo::Fifo;
    res
}

pub fn replay(cfg: Cfg, prop: &str) -> ShardResult {
    // stress replays are best effort: the same seed regenerates the same programs and jitter, the
    // OS schedule may differ; repeat a number of times.
    let mut res = ShardResult::new("c02-replay", cfg.seed);
    let rt = tokio::runtime::Builder::new_multi_thread().worker_threads(2).enable_all().build().unwrap();
    for _ in 0..200 {
        one(&cfg, &rt, &mut res, prop);
        if !res.violations.is_empty() {
            break;
        }
    }
    res
}
