//! C03: corrupted or misdirected disk bytes never surface as a cached value.
//!
//! Device images come from real workloads run against the real hybrid cache (several blobs per
//! block, continued blobs, multi-page entries, overwritten versions, tombstone partition, all
//! compression tags, optionally a wrapped device whose blocks were reclaimed and reused).  For EVERY
//! page of every partition file a set of single-page faults is applied (bit flip, zero page, swap
//! within the block, swap across blocks, older generation of the page from the write log) plus
//! targeted faults in every header / blob-index field found by the independent parser, plus seeded
//! multi-fault sets.  Each faulted image is reopened in quiet mode and all keys are looked up.
//! A second monitor perturbs the bytes returned by reads of a live store.
//! Oracle: miss, error, or a bit-exact version that was really inserted for that key; no panic.
use std::collections::{BTreeMap, BTreeSet};

use foyer::RecoverMode;
use serde::{Deserialize, Serialize};
use serde_json::json;

use crate::{
    hscript::{Exec, HOp, Loc},
    hyb::{self, Comp, Controls, DirGuard, HCfg, Policy, Seen, PAGE},
    image::{self, MemImage, ParsedImage, Payload, HEADER_LEN, INDEX_ENTRY_LEN, INDEX_HEADER_LEN},
    io::{FaultKind, ReadFault, WriteRec},
    mem::{Algo, AlgoCfg},
    out::ShardResult,
    rng::{fnv, Rng},
    value::Stamp,
};

#[derive(Clone, Debug, Serialize, Deserialize)]
pub struct Plan {
    pub cfg: HCfg,
    pub keys: u64,
    pub ops: Vec<HOp>,
    pub wrap: bool,
    pub fault_seed: u64,
}

#[derive(Clone, Debug, Serialize, Deserialize, PartialEq, Eq, Hash)]
pub enum Fault {
    Flip { partition: u32, page: usize, byte: usize, bit: u8, what: String },
    Set { partition: u32, page: usize, byte: usize, val: u8, what: String },
    Zero { partition: u32, page: usize },
    /// exchange two pages (same or different partitions)
    Swap { partition: u32, page: usize, partition2: u32, page2: usize },
    /// the page shows what an earlier write had put there (lost / stale write)
    OlderGen { partition: u32, page: usize, write_seq: u64 },
}

impl Fault {
    pub fn class(&self) -> String {
        match self {
            Fault::Flip { what, .. } => format!("flip:{what}"),
            Fault::Set { what, .. } => format!("set:{what}"),
            Fault::Zero { .. } => "zero-page".into(),
            Fault::Swap { partition, partition2, .. } if partition == partition2 => "swap-within-block".into(),
            Fault::Swap { .. } => "swap-across-blocks".into(),
            Fault::OlderGen { .. } => "older-generation".into(),
        }
    }
    pub fn partitions(&self) -> Vec<u32> {
        match self {
            Fault::Flip { partition, .. } | Fault::Set { partition, .. } | Fault::Zero { partition, .. } | Fault::OlderGen { partition, .. } => vec![*partition],
            Fault::Swap { partition, partition2, .. } => vec![*partition, *partition2],
        }
    }
}

pub fn gen_plan(rng: &mut Rng, tier: &str) -> Plan {
    let mut cfg = HCfg::small(AlgoCfg::default_for(Algo::Fifo));
    cfg.policy = Policy::WriteOnInsertion;
    cfg.tombstone = rng.chance(1, 2);
    cfg.mem_capacity = 4096;
    cfg.blob_index_size = *rng.pick(&[4096, 4096, 8192]);
    cfg.block_size = *rng.pick(&[16 * 1024, 32 * 1024, 64 * 1024]);
    cfg.flushers = 1 + rng.usize(2);
    cfg.compression = *rng.pick(&[Comp::None, Comp::Zstd, Comp::Lz4]);
    cfg.buffer_pool_size = 2 * 1024 * 1024 * cfg.flushers;
    cfg.clean_block_threshold = 1;
    cfg.flush_on_close = false;
    let wrap = rng.chance(1, 4);
    let keys = 5 + rng.below(if tier == "thorough" { 20 } else { 10 });
    let n_ops = if wrap { 60 + rng.usize(60) } else { 12 + rng.usize(if tier == "thorough" { 50 } else { 24 }) };
    let pages_per_block = cfg.block_size / PAGE - cfg.blob_index_size / PAGE;
    let mut ops = vec![];
    let mut held = false;
    let mut pages = 0usize;
    for _ in 0..n_ops {
        let k = rng.below(keys);
        match rng.below(16) {
            0..=9 => {
                let size = match rng.below(8) {
                    0 => 28,
                    1 => 4096 - 36 - 16,
                    2 => 4096 - 36 - 16 + 1,
                    3 => 28 + rng.usize(3 * PAGE),
                    _ => 28 + rng.usize(1500),
                };
                let size = size.min(cfg.max_entry_size() - 36 - 16 - if cfg.compression == Comp::None { 0 } else { 512 }); // incompressible payloads grow under zstd/lz4 framing
                pages += (size + 36 + 16).div_ceil(PAGE);
                ops.push(HOp::Insert { k, size, loc: Loc::Default });
            }
            10 | 11 => ops.push(HOp::Remove { k }),
            12 => {
                ops.push(HOp::Wait);
                held = false;
            }
            13 => {
                if !held {
                    ops.push(HOp::HoldFlush);
                    held = true;
                }
            }
            14 => {
                if held {
                    ops.push(HOp::ReleaseFlush);
                    held = false;
                }
            }
            _ => ops.push(HOp::Settle),
        }
    }
    ops.push(HOp::Wait);
    cfg.blocks = if wrap { (2 * cfg.flushers + 2).max(4) } else { (pages * 3 / 2).div_ceil(pages_per_block.max(1)) + 2 * cfg.flushers + 2 };
    Plan { cfg, keys, ops, wrap, fault_seed: rng.next() }
}

pub struct Built {
    pub base: MemImage,
    pub writes: Vec<WriteRec>,
    pub inserted: BTreeMap<u64, BTreeSet<Stamp>>,
    pub parsed: ParsedImage,
    pub live: LiveOutcome,
}

#[derive(Default)]
pub struct LiveOutcome {
    pub lookups: u64,
    pub hits: u64,
    pub misses: u64,
    pub errors: u64,
    pub by_class: BTreeMap<String, u64>,
    pub problems: Vec<(String, String, serde_json::Value)>,
}

fn judge(inserted: &BTreeMap<u64, BTreeSet<Stamp>>, key: u64, seen: &Seen) -> Option<(String, String)> {
    match seen {
        Seen::Miss | Seen::Error(_) => None,
        Seen::Corrupt(why) => Some(("garbage-surfaced".into(), format!("key {key}: the lookup returned bytes that are not a value stored for this key: {why}"))),
        Seen::Hit(s) => {
            if s.key != key {
                Some(("foreign-value-surfaced".into(), format!("key {key}: the lookup returned {s:?}, a value written for another key")))
            } else if !inserted.get(&key).map(|v| v.contains(s)).unwrap_or(false) {
                Some(("never-stored-version-surfaced".into(), format!("key {key}: the lookup returned {s:?}, which validates but was never inserted")))
            } else {
                None
            }
        }
    }
}

/// header field table: (name, byte range inside the 36-byte entry header)
const HEADER_FIELDS: &[(&str, usize, usize)] =
    &[("key_len", 0, 4), ("value_len", 4, 8), ("hash", 8, 16), ("sequence", 16, 24), ("checksum", 24, 32), ("magic", 32, 35), ("compression", 35, 36)];

/// Build the device image by running the plan, and run the live read-fault monitor on the open store.
async fn build(plan: &Plan) -> Result<Built, String> {
    let cfg = &plan.cfg;
    let mut ex = Exec::new(cfg.clone()).await.map_err(|e| format!("open: {e}"))?;
    let mut inserted: BTreeMap<u64, BTreeSet<Stamp>> = BTreeMap::new();
    for op in &plan.ops {
        let o = tokio::time::timeout(std::time::Duration::from_secs(60), ex.step(op)).await.map_err(|_| format!("{op:?} did not return in 60 s"))?;
        if let (HOp::Insert { k, .. }, Some(Seen::Hit(s))) = (op, &o.seen) {
            inserted.entry(*k).or_default().insert(*s);
        }
    }
    ex.step(&HOp::EvictMem).await;
    // ---- live monitor: perturb what reads of the open store return
    let mut live = LiveOutcome::default();
    let parsed_live = image::parse_image(cfg, &ex.dir.0);
    let mut rng = Rng::derive(plan.fault_seed, 77);
    let first_block = cfg.tombstone as u32;
    let served = image::expected_index(&parsed_live);
    let one_page: Vec<&image::ParsedEntry> = parsed_live.entries.iter().filter(|e| e.len <= PAGE).collect();
    for (_hash, e) in served.iter() {
        let Some(e) = e else { continue };
        let Payload::Value { key, .. } = &e.payload else { continue };
        let partition = first_block + e.block;
        let page_offset = (e.offset / PAGE * PAGE) as u64;
        let npages = e.len.div_ceil(PAGE);
        let (kind, class) = match rng.below(10) {
            0 => {
                let (name, s, t) = HEADER_FIELDS[rng.usize(HEADER_FIELDS.len())];
                (FaultKind::Flip { byte: s + rng.usize(t - s), bit: rng.below(8) as u8 }, format!("live:flip:header.{name}"))
            }
            1 => (FaultKind::Flip { byte: 35, bit: rng.below(2) as u8 }, "live:flip:header.compression".to_string()),
            2 | 3 => (FaultKind::Flip { byte: HEADER_LEN + rng.usize((e.len - HEADER_LEN).min(PAGE - HEADER_LEN).max(1)), bit: rng.below(8) as u8 }, "live:flip:body".to_string()),
            4 => (FaultKind::ZeroPage, "live:zero-page".to_string()),
            5 => (FaultKind::IoError, "live:io-error".to_string()),
            _ => {
                // misdirected read: the device returns another entry's page
                let others: Vec<&&image::ParsedEntry> = one_page.iter().filter(|o| o.offset != e.offset || o.block != e.block).collect();
                if others.is_empty() || npages != 1 {
                    (FaultKind::ZeroPage, "live:zero-page".to_string())
                } else {
                    let o = others[rng.usize(others.len())];
                    let data = image::read_partition(&ex.dir.0, first_block + o.block);
                    let pg = data[o.offset..(o.offset + PAGE).min(data.len())].to_vec();
                    (FaultKind::Replace(std::sync::Arc::new(pg)), "live:misdirected-read(other entry)".to_string())
                }
            }
        };
        // faults beyond the first page for multi-page entries
        let page_offset = if npages > 1 && class == "live:flip:body" { page_offset + (rng.usize(npages) * PAGE) as u64 } else { page_offset };
        crate::progress(&json!({"check":"c03","mode":"live","class":class,"key":key,"cfg":cfg}));
        ex.ctl.io.read_faults.lock().push(ReadFault { partition, page_offset, kind, remaining: u64::MAX });
        let r = ex.cache().get(key).await;
        ex.ctl.io.read_faults.lock().clear();
        let seen = hyb::see(*key, r);
        live.lookups += 1;
        *live.by_class.entry(class.clone()).or_insert(0) += 1;
        match &seen {
            Seen::Hit(_) => live.hits += 1,
            Seen::Miss => live.misses += 1,
            Seen::Error(_) => live.errors += 1,
            _ => {}
        }
        if let Some((sig, detail)) = judge(&inserted, *key, &seen) {
            live.problems.push((format!("{sig}:{class}"), format!("live store, read fault {class} on block {} offset {}: {detail}", e.block, e.offset), json!({"mode":"live","class":class,"key":key})));
        }
        ex.step(&HOp::EvictMem).await;
    }
    crate::progress(&json!({"check":"c03","mode":"between"}));
    // ---- graceful close: the base image
    ex.release_all();
    let c = ex.cache.take().unwrap();
    let _ = c.close().await;
    drop(c);
    ex.settle().await;
    let writes = ex.ctl.io.snapshot_writes();
    let base = MemImage::from_dir(cfg, &ex.dir.0);
    let parsed = image::parse_image(cfg, &ex.dir.0);
    Ok(Built { base, writes, inserted, parsed, live })
}

fn older_generations(writes: &[WriteRec], base: &MemImage, partition: u32, page: usize) -> Vec<(u64, Vec<u8>)> {
    // contents this page had after earlier writes, newest first, different from the final content
    let fin = base.page(partition, page).map(|p| p.to_vec()).unwrap_or_default();
    let mut out: Vec<(u64, Vec<u8>)> = vec![];
    for w in writes.iter().rev() {
        if w.partition != partition || w.data.len() != w.len {
            continue;
        }
        let (s, e) = (w.offset as usize, w.offset as usize + w.len);
        let (ps, pe) = (page * PAGE, (page + 1) * PAGE);
        if s <= ps && pe <= e {
            let d = w.data[ps - s..pe - s].to_vec();
            if d != fin && !out.iter().any(|(_, x)| *x == d) {
                out.push((w.seq, d));
            }
        }
    }
    out
}

pub fn enumerate_faults(plan: &Plan, b: &Built, tier: &str) -> (Vec<Vec<Fault>>, bool) {
    let cfg = &plan.cfg;
    let mut rng = Rng::derive(plan.fault_seed, 1);
    let mut cases: Vec<Vec<Fault>> = vec![];
    let parts: Vec<u32> = b.base.0.keys().copied().collect();
    let first_block = cfg.tombstone as u32;
    let zero = vec![0u8; PAGE];
    let mut every_page = true;
    let total_pages: usize = parts.iter().map(|p| b.base.pages(*p)).sum();
    // budget: all pages unless the image is very large (then a seeded sample, recorded as not exhaustive)
    let page_cap = if tier == "thorough" { 4096 } else { 320 };
    let keep = |rng: &mut Rng| -> bool { total_pages <= page_cap || rng.below(total_pages as u64) < page_cap as u64 };
    for &p in &parts {
        let np = b.base.pages(p);
        for g in 0..np {
            if !keep(&mut rng) {
                every_page = false;
                continue;
            }
            let content = b.base.page(p, g).unwrap();
            let is_zero = content == &zero[..];
            // the used part of the page matters most: flip inside it when we can tell
            cases.push(vec![Fault::Flip { partition: p, page: g, byte: rng.usize(PAGE), bit: rng.below(8) as u8, what: "random".into() }]);
            if !is_zero {
                let used = content.iter().rposition(|x| *x != 0).unwrap_or(0) + 1;
                cases.push(vec![Fault::Flip { partition: p, page: g, byte: rng.usize(used), bit: rng.below(8) as u8, what: "used-bytes".into() }]);
                cases.push(vec![Fault::Zero { partition: p, page: g }]);
            }
            if np > 1 {
                let mut g2 = rng.usize(np);
                if g2 == g {
                    g2 = (g + 1) % np;
                }
                if b.base.page(p, g2).unwrap() != content {
                    cases.push(vec![Fault::Swap { partition: p, page: g, partition2: p, page2: g2 }]);
                }
            }
            if p >= first_block {
                let others: Vec<u32> = parts.iter().copied().filter(|q| *q >= first_block && *q != p).collect();
                if !others.is_empty() {
                    let q = *rng.pick(&others);
                    if b.base.page(q, g).map(|x| x != content).unwrap_or(false) {
                        cases.push(vec![Fault::Swap { partition: p, page: g, partition2: q, page2: g }]);
                    }
                    let q2 = *rng.pick(&others);
                    let g2 = rng.usize(b.base.pages(q2).max(1));
                    if b.base.page(q2, g2).map(|x| x != content).unwrap_or(false) {
                        cases.push(vec![Fault::Swap { partition: p, page: g, partition2: q2, page2: g2 }]);
                    }
                }
            }
            for (seq, _) in older_generations(&b.writes, &b.base, p, g).into_iter().take(2) {
                cases.push(vec![Fault::OlderGen { partition: p, page: g, write_seq: seq }]);
            }
        }
    }
    // targeted: every blob index found by the parser, every entry header
    let mut blobs: BTreeSet<(u32, usize)> = BTreeSet::new();
    for e in &b.parsed.entries {
        blobs.insert((e.block, e.blob_offset));
    }
    for (blk, off) in &blobs {
        let p = first_block + blk;
        let g = off / PAGE;
        let n_in_blob = b.parsed.entries.iter().filter(|e| e.block == *blk && e.blob_offset == *off).count();
        for (what, s, t) in [("index.checksum", 0usize, 8usize), ("index.count", 8, 12)] {
            for _ in 0..2 {
                cases.push(vec![Fault::Flip { partition: p, page: g, byte: s + rng.usize(t - s), bit: rng.below(8) as u8, what: what.into() }]);
            }
        }
        // count low bits: one entry more / fewer
        cases.push(vec![Fault::Flip { partition: p, page: g, byte: 11, bit: 0, what: "index.count".into() }]);
        for i in 0..n_in_blob.min(if tier == "thorough" { 12 } else { 4 }) {
            let i = if n_in_blob > 4 { rng.usize(n_in_blob) } else { i };
            let base = INDEX_HEADER_LEN + i * INDEX_ENTRY_LEN;
            if base + INDEX_ENTRY_LEN > PAGE {
                continue;
            }
            for (what, s, t) in [("index.entry.hash", 0usize, 8usize), ("index.entry.sequence", 8, 16), ("index.entry.offset", 16, 20), ("index.entry.len", 20, 24)] {
                cases.push(vec![Fault::Flip { partition: p, page: g, byte: base + s + rng.usize(t - s), bit: rng.below(8) as u8, what: what.into() }]);
            }
            // low-order bits of offset (in pages) and len
            cases.push(vec![Fault::Flip { partition: p, page: g, byte: base + 18, bit: 4 + rng.below(3) as u8, what: "index.entry.offset".into() }]);
            cases.push(vec![Fault::Flip { partition: p, page: g, byte: base + 23, bit: rng.below(8) as u8, what: "index.entry.len".into() }]);
        }
    }
    let n_entries = b.parsed.entries.len();
    let entry_cap = if tier == "thorough" { 400 } else { 60 };
    for e in &b.parsed.entries {
        if n_entries > entry_cap && rng.below(n_entries as u64) >= entry_cap as u64 {
            continue;
        }
        let p = first_block + e.block;
        let g = e.offset / PAGE;
        let inpage = e.offset % PAGE;
        for (name, s, t) in HEADER_FIELDS {
            cases.push(vec![Fault::Flip { partition: p, page: g, byte: inpage + s + rng.usize(t - s), bit: rng.below(8) as u8, what: format!("header.{name}") }]);
        }
        // low bits of the lengths, and every other valid compression tag
        cases.push(vec![Fault::Flip { partition: p, page: g, byte: inpage + 3, bit: rng.below(4) as u8, what: "header.key_len".into() }]);
        cases.push(vec![Fault::Flip { partition: p, page: g, byte: inpage + 7, bit: rng.below(8) as u8, what: "header.value_len".into() }]);
        let cur = b.base.page(p, g).unwrap()[inpage + 35];
        for v in 0..3u8 {
            if v != cur {
                cases.push(vec![Fault::Set { partition: p, page: g, byte: inpage + 35, val: v, what: format!("header.compression:{cur}->{v}") }]);
            }
        }
        // body
        let body_pages = e.len.div_ceil(PAGE);
        let bp = rng.usize(body_pages);
        let lo = if bp == 0 { HEADER_LEN } else { 0 };
        let hi = if bp == body_pages - 1 { (e.len - bp * PAGE).max(lo + 1) } else { PAGE };
        cases.push(vec![Fault::Flip { partition: p, page: g + bp, byte: lo + rng.usize(hi - lo), bit: rng.below(8) as u8, what: "entry.body".into() }]);
    }
    // tombstone slots
    if cfg.tombstone {
        for t in b.parsed.tombstones.iter().take(if tier == "thorough" { 40 } else { 8 }) {
            for (what, s) in [("tombstone.hash", 0usize), ("tombstone.sequence", 8)] {
                cases.push(vec![Fault::Flip { partition: 0, page: t.page, byte: t.slot * 16 + s + rng.usize(8), bit: rng.below(8) as u8, what: what.into() }]);
            }
        }
    }
    // multi-fault sets
    let singles = cases.len();
    let n_multi = if tier == "thorough" { singles / 4 } else { singles / 10 };
    for _ in 0..n_multi {
        let k = 2 + rng.usize(3);
        let set: Vec<Fault> = (0..k).map(|_| cases[rng.usize(singles)][0].clone()).collect();
        cases.push(set);
    }
    (cases, every_page)
}

pub fn apply_faults(base: &MemImage, writes: &[WriteRec], faults: &[Fault]) -> MemImage {
    let mut img = base.clone();
    for f in faults {
        match f {
            Fault::Flip { partition, page, byte, bit, .. } => {
                if let Some(p) = img.page_mut(*partition, *page) {
                    p[*byte % PAGE] ^= 1 << (bit % 8);
                }
            }
            Fault::Set { partition, page, byte, val, .. } => {
                if let Some(p) = img.page_mut(*partition, *page) {
                    p[*byte % PAGE] = *val;
                }
            }
            Fault::Zero { partition, page } => {
                if let Some(p) = img.page_mut(*partition, *page) {
                    p.fill(0);
                }
            }
            Fault::Swap { partition, page, partition2, page2 } => {
                let a = img.page(*partition, *page).map(|x| x.to_vec());
                let b = img.page(*partition2, *page2).map(|x| x.to_vec());
                if let (Some(a), Some(b)) = (a, b) {
                    img.page_mut(*partition, *page).unwrap().copy_from_slice(&b);
                    img.page_mut(*partition2, *page2).unwrap().copy_from_slice(&a);
                }
            }
            Fault::OlderGen { partition, page, write_seq } => {
                if let Some(w) = writes.get(*write_seq as usize) {
                    let ps = page * PAGE;
                    let s = w.offset as usize;
                    if s <= ps && ps + PAGE <= s + w.data.len() {
                        let d = w.data[ps - s..ps - s + PAGE].to_vec();
                        if let Some(p) = img.page_mut(*partition, *page) {
                            p.copy_from_slice(&d);
                        }
                    }
                }
            }
        }
    }
    img
}

#[derive(Default)]
pub struct Outcome {
    pub problems: Vec<(String, String, serde_json::Value)>,
    pub images: u64,
    pub lookups: u64,
    pub hits: u64,
    pub misses: u64,
    pub errors: u64,
    pub changed_answers: u64,
    pub caught_panics: u64,
    pub direct_images: u64,
    pub by_class: BTreeMap<String, u64>,
    pub hashes: BTreeSet<u64>,
    pub every_page: bool,
    pub pages: u64,
    pub entries: u64,
    pub inconclusive: Vec<String>,
    pub sample: Option<serde_json::Value>,
    pub live: LiveOutcome,
}

/// `direct`: look the keys up through `Store::load` (the disk tier's own entry point: a panic in the loader
/// propagates to the caller) instead of `HybridCache::get` (the loader runs in a fetch task).
async fn read_back(cfg: &HCfg, dir: &std::path::Path, keys: u64, direct: bool) -> Result<(Vec<(u64, Seen)>, usize), String> {
    let cfg = cfg.clone();
    let path = dir.to_path_buf();
    let h = tokio::spawn(async move {
        let ctl = Controls::new();
        ctl.io.record_payload.store(false, std::sync::atomic::Ordering::Relaxed);
        let cache = hyb::open(&cfg, &path, &ctl, RecoverMode::Quiet).await.map_err(|e| format!("reopen failed in quiet mode: {e}"))?;
        let mut out = vec![];
        for k in 0..keys {
            if direct {
                let seen = match cache.storage().load(&k).await {
                    Ok(foyer::Load::Entry { key, value, .. }) => match crate::value::parse(&value) {
                        Ok(s) if key == k => Seen::Hit(s),
                        Ok(s) => Seen::Corrupt(format!("entry of key {key} ({s:?}) returned for key {k}")),
                        Err(b) => Seen::Corrupt(format!("{b:?}")),
                    },
                    Ok(foyer::Load::Piece { .. }) => Seen::Corrupt("piece from an empty write queue".into()),
                    Ok(foyer::Load::Miss) | Ok(foyer::Load::Throttled) => Seen::Miss,
                    Err(e) => Seen::Error(format!("{:?}", e.kind())),
                };
                out.push((k, seen));
                continue;
            }
            let r = cache.get(&k).await;
            out.push((k, hyb::see(k, r)));
        }
        let _ = cache.close().await;
        Ok::<_, String>((out, ctl.io.write_count()))
    });
    match tokio::time::timeout(std::time::Duration::from_secs(120), h).await {
        Err(_) => Err("TIMEOUT".into()),
        Ok(Err(join)) => Err(format!(
            "reopen/lookup panicked: {}",
            if join.is_panic() { crate::panic_message(&join.into_panic()) } else { "cancelled".into() }
        )),
        Ok(Ok(r)) => r,
    }
}

pub fn run_plan(plan: &Plan, tier: &str, only: Option<Vec<Fault>>) -> Outcome {
    let cfg = &plan.cfg;
    let mut out = Outcome::default();
    let mut b = match crate::with_rt(3, build(plan)) {
        Ok(b) => b,
        Err(e) => {
            out.inconclusive.push(e);
            return out;
        }
    };
    out.live = std::mem::take(&mut b.live);
    out.pages = b.base.0.keys().map(|p| b.base.pages(*p) as u64).sum();
    out.entries = b.parsed.entries.len() as u64;
    let (cases, every_page) = match only {
        Some(f) => (vec![f], false),
        None => enumerate_faults(plan, &b, tier),
    };
    out.every_page = every_page;
    let dir = DirGuard(hyb::scratch_dir("c03img"));
    b.base.write_to(&dir.0);
    // reference answers on the unfaulted image
    let reference: BTreeMap<u64, Seen> = match crate::with_rt(2, read_back(cfg, &dir.0, plan.keys, false)) {
        Ok((r, w)) => {
            if w > 0 {
                b.base.write_to(&dir.0);
            }
            r.into_iter().collect()
        }
        Err(e) => {
            out.problems.push(("reopen-of-unfaulted-image".into(), e, json!({})));
            return out;
        }
    };
    for (k, s) in &reference {
        if let Some((sig, d)) = judge(&b.inserted, *k, s) {
            out.problems.push((format!("{sig}:unfaulted"), d, json!({})));
        }
    }
    for (case_no, faults) in cases.iter().enumerate() {
        let direct = case_no % 2 == 1;
        let img = apply_faults(&b.base, &b.writes, faults);
        let touched: BTreeSet<u32> = faults.iter().flat_map(|f| f.partitions()).collect();
        let mut changed = false;
        for p in &touched {
            if img.0[p] != b.base.0[p] {
                changed = true;
                std::fs::write(image::partition_file(&dir.0, *p), &img.0[p]).unwrap();
            }
        }
        if !changed {
            continue;
        }
        let class = if faults.len() == 1 { faults[0].class() } else { format!("multi-fault-set({})", faults.len()) };
        crate::progress(&json!({"check":"c03","mode":"image","class":class,"faults":faults,"plan":plan}));
        let panics_before = crate::panic_count();
        let r = crate::with_rt(2, read_back(cfg, &dir.0, plan.keys, direct));
        out.caught_panics += crate::panic_count() - panics_before;
        if direct {
            out.direct_images += 1;
        }
        // restore
        let wrote = matches!(&r, Ok((_, w)) if *w > 0) || r.is_err();
        if wrote {
            b.base.write_to(&dir.0);
        } else {
            for p in &touched {
                std::fs::write(image::partition_file(&dir.0, *p), &b.base.0[p]).unwrap();
            }
        }
        match r {
            Err(e) if e == "TIMEOUT" => out.inconclusive.push(format!("faults {faults:?}: reopen + lookups did not finish within 120 s")),
            Err(e) if e.contains("os error 24") => out.inconclusive.push(format!("out of file descriptors: {e}")),
            Err(e) => {
                let sig = if e.contains("panicked") { format!("reopen-panicked:{}", crate::normalise(&e).chars().take(70).collect::<String>()) } else { "reopen-failed-in-quiet-mode".to_string() };
                if out.problems.len() < 6 {
                    out.problems.push((format!("{sig}:{class}"), format!("faults {faults:?}: {e}"), json!({"faults":faults})));
                }
            }
            Ok((seen, _)) => {
                out.images += 1;
                *out.by_class.entry(class.clone()).or_insert(0) += 1;
                let mut differs = false;
                for (k, s) in &seen {
                    out.lookups += 1;
                    match s {
                        Seen::Hit(_) => out.hits += 1,
                        Seen::Miss => out.misses += 1,
                        Seen::Error(_) => out.errors += 1,
                        _ => {}
                    }
                    if reference.get(k) != Some(s) {
                        differs = true;
                    }
                    if let Some((sig, detail)) = judge(&b.inserted, *k, s) {
                        if out.problems.len() < 6 {
                            out.problems.push((format!("{sig}:{class}"), format!("faults {faults:?}: {detail}"), json!({"faults":faults,"key":k})));
                        }
                    }
                }
                if differs {
                    out.changed_answers += 1;
                    // non-trivial: the fault changed what at least one lookup answers
                    out.hashes.insert(fnv(format!("{:?}{:?}{:?}", plan.cfg, plan.ops, faults).as_bytes()));
                    if out.sample.is_none() && faults.len() == 1 {
                        out.sample = Some(json!({"faults":faults,
                            "answers_changed": seen.iter().filter(|(k,s)| reference.get(k) != Some(s)).take(4)
                                .map(|(k,s)| json!({"key":k,"unfaulted":reference.get(k),"faulted":s})).collect::<Vec<_>>() }));
                    }
                }
            }
        }
    }
    crate::progress(&json!({"check":"c03","mode":"done"}));
    out
}

pub fn run(seed: u64, tier: &str, shard: usize, nshards: usize) -> ShardResult {
    let mut res = ShardResult::new("c03", seed);
    let total = if tier == "thorough" { 320 } else { 48 };
    let mut rng = Rng::derive(seed, 0xC03_000 + shard as u64);
    res.exhaustive = true;
    for _ in 0..(total / nshards.max(1)).max(1) {
        let plan = gen_plan(&mut rng, tier);
        let o = run_plan(&plan, tier, None);
        absorb(&mut res, &plan, o);
    }
    res
}

fn absorb(res: &mut ShardResult, plan: &Plan, o: Outcome) {
    res.evaluations += o.images + o.live.lookups;
    res.count("images_built_from_workloads", 1);
    res.count("faulted_images_reopened", o.images);
    res.count("lookups_after_reopen", o.lookups);
    res.count("lookup_hits_genuine", o.hits);
    res.count("lookup_misses", o.misses);
    res.count("lookup_errors", o.errors);
    res.count("faulted_images_changing_an_answer", o.changed_answers);
    res.count("faulted_images_read_through_store_load", o.direct_images);
    res.count("panics_observed_by_the_panic_hook", o.caught_panics);
    res.count("image_pages", o.pages);
    res.count("image_entries_parsed", o.entries);
    res.count("live_read_fault_lookups", o.live.lookups);
    res.count("live_hits_genuine", o.live.hits);
    res.count("live_misses", o.live.misses);
    res.count("live_errors", o.live.errors);
    if !o.every_page {
        res.count("images_with_sampled_pages", 1);
        res.exhaustive = false;
    }
    for (k, v) in &o.by_class {
        res.count(&format!("fault::{k}"), *v);
    }
    for (k, v) in &o.live.by_class {
        res.count(&format!("fault::{k}"), *v);
    }
    res.count(&format!("cfg_comp_{:?}", plan.cfg.compression), 1);
    res.count(&format!("cfg_tombstone_{}", plan.cfg.tombstone), 1);
    res.count(&format!("cfg_wrapped_device_{}", plan.wrap), 1);
    res.nontrivial_hashes.extend(o.hashes);
    if let Some(s) = o.sample {
        if res.samples.len() < 2 {
            res.sample(json!({"cfg": plan.cfg, "ops": plan.ops.iter().take(20).collect::<Vec<_>>(), "case": s}));
        }
    }
    for e in o.inconclusive {
        res.inconclusive += 1;
        res.inconclusive_notes.push(e);
    }
    for (sig, detail, at) in o.problems.into_iter().chain(o.live.problems).take(3) {
        res.violate(format!("C03:{sig}"), detail, json!({"check":"c03","plan":plan,"at":at}));
    }
}

pub fn replay(plan: Plan, at: serde_json::Value) -> ShardResult {
    let mut res = ShardResult::new("c03-replay", 0);
    let only: Option<Vec<Fault>> = at.get("faults").and_then(|f| serde_json::from_value(f.clone()).ok());
    let o = run_plan(&plan, "thorough", only);
    absorb(&mut res, &plan, o);
    res
}
