//! C04: recovery after a crash at any point is consistent.
//!
//! A single sequential client runs a workload against the real hybrid cache behind the recording io
//! engine.  The write log is totally ordered by issue; `wait()` returns are recorded as ack markers
//! with the log position.  Crash images = base image + every prefix of the issued writes, plus
//! page-granular tears of the next write.  Every crash image is reopened (quiet recovery) and every
//! key is looked up; the allowed results per key are computed from the op log.  One crash image is
//! then taken as the state the "machine restarts from": the workload continues on it and is crashed
//! again (repeated crash/restart cycles).
use std::collections::{BTreeMap, BTreeSet};

use foyer::RecoverMode;
use serde::{Deserialize, Serialize};
use serde_json::json;

use crate::{
    hscript::{Exec, HOp, Loc},
    hyb::{self, Comp, Controls, DirGuard, HCfg, Policy, Seen, PAGE},
    image::MemImage,
    io::WriteRec,
    mem::{Algo, AlgoCfg},
    out::ShardResult,
    rng::{fnv, Rng},
    value::Stamp,
};

#[derive(Clone, Debug, Serialize, Deserialize)]
pub struct Plan {
    pub cfg: HCfg,
    pub keys: u64,
    pub cycles: Vec<Vec<HOp>>,
    /// seed for the choice of the crash image each next cycle starts from and for sampled tears
    pub pick: u64,
    /// device deliberately too small: reclaim happens, only the weak clause is judged afterwards
    pub reclaim_mode: bool,
}

#[derive(Clone, Debug, Serialize, Deserialize, PartialEq, Eq)]
pub enum Kind {
    Ins(Stamp),
    Del,
}

#[derive(Clone, Debug, Serialize, Deserialize)]
pub struct OpRec {
    pub cycle: usize,
    pub key: u64,
    pub kind: Kind,
    /// number of writes issued before the call
    pub writes_before: usize,
    /// number of writes issued when the wait() that acknowledged the op returned
    pub acked_at: Option<usize>,
}

#[derive(Clone, Copy, Debug, PartialEq, Eq, Serialize, Deserialize)]
pub enum Status {
    Acked,
    Maybe,
}

/// A crash point: `full` writes applied completely, then optionally some pages of write #full.
#[derive(Clone, Debug, Serialize, Deserialize)]
pub struct CrashPoint {
    pub full: usize,
    pub torn_pages: Option<Vec<usize>>,
}

fn is_clean_write(cfg: &HCfg, w: &WriteRec) -> bool {
    w.partition >= cfg.tombstone as u32 && w.offset == 0 && w.len == PAGE && w.data.len() == PAGE && w.data.iter().all(|b| *b == 0)
}

fn gen_ops(rng: &mut Rng, cfg: &HCfg, keys: u64, n: usize, budget_pages: &mut usize, small_only: bool) -> Vec<HOp> {
    let mut ops = vec![];
    let mut held = false;
    let woe = cfg.policy == Policy::WriteOnEviction;
    let push_wait = |ops: &mut Vec<HOp>, held: &mut bool| {
        if woe {
            ops.push(HOp::EvictMem);
        }
        // Wait releases every gate first
        ops.push(HOp::Wait);
        *held = false;
    };
    for _ in 0..n {
        let k = rng.below(keys);
        match rng.below(20) {
            0..=10 => {
                let size = match rng.below(8) {
                    0 => 28,
                    1 => 4096 - 36 - 16,
                    2 if !small_only => 4096 - 36 - 16 + 1,
                    3 if !small_only => 28 + rng.usize(3 * PAGE),
                    _ => 28 + rng.usize(1200),
                };
                // entries that can never be stored (larger than a block can hold) are outside this property
                let size = size.min(cfg.max_entry_size() - 36 - 16 - if cfg.compression == Comp::None { 0 } else { 512 }); // incompressible payloads grow under zstd/lz4 framing
                let pages = (size + 36 + 16).div_ceil(PAGE);
                if *budget_pages < pages + 2 {
                    continue;
                }
                *budget_pages -= pages;
                ops.push(HOp::Insert { k, size, loc: Loc::Default });
            }
            11..=13 => ops.push(HOp::Remove { k }),
            14 | 15 => push_wait(&mut ops, &mut held),
            16 => {
                if !held {
                    ops.push(HOp::HoldFlush);
                    held = true;
                }
            }
            17 => {
                if held {
                    if woe {
                        ops.push(HOp::EvictMem);
                    }
                    ops.push(HOp::ReleaseFlush);
                    held = false;
                }
            }
            18 if woe => ops.push(HOp::EvictMem),
            _ => ops.push(HOp::Settle),
        }
    }
    push_wait(&mut ops, &mut held);
    ops
}

pub fn gen_plan(rng: &mut Rng, tier: &str) -> Plan {
    let mut cfg = HCfg::small(AlgoCfg::default_for(Algo::Fifo));
    cfg.policy = if rng.chance(1, 2) { Policy::WriteOnInsertion } else { Policy::WriteOnEviction };
    cfg.tombstone = rng.chance(1, 2);
    cfg.mem_capacity = 64 * 1024;
    cfg.blob_index_size = *rng.pick(&[4096, 4096, 4096, 8192]);
    cfg.block_size = *rng.pick(&[16 * 1024, 32 * 1024, 64 * 1024]);
    cfg.flushers = 1 + rng.usize(2);
    cfg.compression = *rng.pick(&[Comp::None, Comp::None, Comp::Zstd, Comp::Lz4]);
    cfg.buffer_pool_size = 2 * 1024 * 1024 * cfg.flushers;
    cfg.clean_block_threshold = 1;
    cfg.flush_on_close = false;
    let keys = 3 + rng.below(6);
    let ncycles = 1 + rng.usize(if tier == "thorough" { 4 } else { 3 });
    let reclaim_mode = rng.chance(1, 6);
    let n_ops = 8 + rng.usize(if tier == "thorough" { 40 } else { 24 });
    let pages_per_block = cfg.block_size / PAGE - cfg.blob_index_size / PAGE;
    // generous device: every restart abandons the open block of each flusher, every batch may open a blob
    let mut budget = n_ops * ncycles * 2 + 8;
    let data_pages = budget;
    cfg.blocks = if reclaim_mode {
        (2 * cfg.flushers + 2).max(4)
    } else {
        (data_pages * 2).div_ceil(pages_per_block.max(1)) + (ncycles + 1) * cfg.flushers * 2 + 4
    };
    let small_only = reclaim_mode;
    let mut cycles = vec![];
    for _ in 0..ncycles {
        cycles.push(gen_ops(rng, &cfg, keys, n_ops, &mut budget, small_only));
    }
    Plan { cfg, keys, cycles, pick: rng.next(), reclaim_mode }
}

pub struct CycleRun {
    pub ops: Vec<OpRec>,
    pub writes: Vec<WriteRec>,
}

/// Run one cycle's ops on the device image `base` (written to a scratch directory first).
async fn run_cycle(cfg: &HCfg, base: &MemImage, cycle: usize, ops: &[HOp], versions: &mut BTreeMap<u64, u32>) -> Result<CycleRun, String> {
    let dir = DirGuard(hyb::scratch_dir("c04run"));
    base.write_to(&dir.0);
    let ctl = Controls::new();
    let cache = hyb::open(cfg, &dir.0, &ctl, RecoverMode::Quiet).await.map_err(|e| format!("open of the run image failed: {e}"))?;
    let mut ex = Exec {
        cfg: cfg.clone(),
        ctl,
        dir,
        cache: Some(cache),
        versions: std::mem::take(versions),
        reopen_count: cycle as u32,
        flush_held: false,
        writes_held: false,
    };
    let mut recs: Vec<OpRec> = vec![];
    for op in ops {
        let wb = ex.ctl.io.write_count();
        let o = match tokio::time::timeout(std::time::Duration::from_secs(60), ex.step(op)).await {
            Ok(o) => o,
            Err(_) => {
                ex.release_all();
                return Err(format!("{op:?} did not return within 60s"));
            }
        };
        match op {
            HOp::Insert { k, .. } => {
                if let Some(Seen::Hit(s)) = o.seen {
                    recs.push(OpRec { cycle, key: *k, kind: Kind::Ins(s), writes_before: wb, acked_at: None });
                }
            }
            HOp::Remove { k } => recs.push(OpRec { cycle, key: *k, kind: Kind::Del, writes_before: wb, acked_at: None }),
            HOp::Wait => {
                let n = ex.ctl.io.write_count();
                for r in recs.iter_mut().filter(|r| r.acked_at.is_none()) {
                    r.acked_at = Some(n);
                }
            }
            _ => {}
        }
    }
    let writes = ex.ctl.io.snapshot_writes();
    *versions = std::mem::take(&mut ex.versions);
    ex.finish().await;
    Ok(CycleRun { ops: recs, writes })
}

#[derive(Clone, Debug, Serialize, Deserialize)]
pub struct KeyVerdict {
    pub key: u64,
    pub seen: Seen,
    pub problem: Option<(String, String)>,
}

/// Reopen the image and look every key up.  Panics of foyer tasks surface as Err.
async fn read_back(cfg: &HCfg, img: &MemImage, keys: u64) -> Result<(Vec<(u64, Seen)>, bool), String> {
    let dir = DirGuard(hyb::scratch_dir("c04img"));
    img.write_to(&dir.0);
    let cfg = cfg.clone();
    let path = dir.0.clone();
    let h = tokio::spawn(async move {
        let ctl = Controls::new();
        let cache = hyb::open(&cfg, &path, &ctl, RecoverMode::Quiet).await.map_err(|e| format!("reopen failed: {e}"))?;
        let mut out = vec![];
        for k in 0..keys {
            let r = cache.get(&k).await;
            out.push((k, hyb::see(k, r)));
        }
        // close() must return (writers obtain a clean block even on a device recovered full); it also waits for reclaims
        if tokio::time::timeout(std::time::Duration::from_secs(30), cache.close()).await.is_err() {
            return Err("WEDGED: close() of the recovered store did not return within 30 s (lookups had completed)".to_string());
        }
        // a reclaim started by the reopened instance itself (device nearly full) also ends the strong clause
        let reclaimed_now = ctl.io.snapshot_writes().iter().any(|w| is_clean_write(&cfg, w));
        Ok::<_, String>((out, reclaimed_now))
    });
    match tokio::time::timeout(std::time::Duration::from_secs(if std::env::var("VH_KEEP_HANG").is_ok() { 10 } else { 120 }), h).await {
        Err(_) => Err("TIMEOUT".into()),
        Ok(Err(join)) => Err(format!(
            "reopen/lookup panicked: {}",
            if join.is_panic() { crate::panic_message(&join.into_panic()) } else { "cancelled".into() }
        )),
        Ok(Ok(r)) => r,
    }
}

/// The op-log oracle.  `hist`: per key, the ops that may be reflected in the image, in order, with
/// their status at this crash point.
pub fn judge(cfg: &HCfg, hist: &BTreeMap<u64, Vec<(Kind, Status)>>, reclaimed: bool, key: u64, seen: &Seen) -> Option<(String, String)> {
    let empty = vec![];
    let l = hist.get(&key).unwrap_or(&empty);
    let all_versions: BTreeSet<Stamp> = l.iter().filter_map(|(k, _)| if let Kind::Ins(s) = k { Some(*s) } else { None }).collect();
    let last_acked = l.iter().rposition(|(_, st)| *st == Status::Acked);
    match seen {
        Seen::Error(e) => Some(("lookup-error".into(), format!("key {key}: lookup after recovery failed with {e}"))),
        Seen::Corrupt(why) => Some(("foreign-or-corrupt".into(), format!("key {key}: lookup after recovery returned bytes that are not a value of this key: {why}"))),
        Seen::Hit(s) => {
            if s.key != key || !all_versions.contains(s) {
                return Some(("value-never-inserted".into(), format!("key {key}: recovered {s:?}, which is not a version whose insert was issued before the crash point ({} candidate versions)", all_versions.len())));
            }
            if reclaimed {
                return None;
            }
            let Some(a) = last_acked else { return None };
            // weak clause only when the acknowledged op is a delete and deletes are not logged
            if l[a].0 == Kind::Del && !cfg.tombstone {
                return None;
            }
            let pos = l.iter().position(|(k, _)| *k == Kind::Ins(*s)).unwrap();
            if pos < a {
                let what = match &l[a].0 {
                    Kind::Ins(v) => format!("acknowledged insert {v:?}"),
                    Kind::Del => "acknowledged delete (tombstone log on)".to_string(),
                };
                let sig = match &l[a].0 {
                    Kind::Ins(v) if v.writer > s.writer => "older-version-from-before-restart",
                    Kind::Ins(_) => "older-version-than-acked-insert",
                    Kind::Del => "deleted-version-back",
                };
                return Some((sig.into(), format!("key {key}: recovered {s:?} although the later {what} had been flushed and acknowledged by wait() before the crash point")));
            }
            None
        }
        Seen::Miss => {
            if reclaimed {
                return None;
            }
            let Some(a) = last_acked else { return None };
            if l[a..].iter().any(|(k, _)| *k == Kind::Del) {
                return None;
            }
            if let Kind::Ins(v) = &l[a].0 {
                return Some(("acked-insert-lost".into(), format!("key {key}: reads as a miss although insert {v:?} had been flushed and acknowledged by wait() before the crash point, no delete was issued after it and no block was reclaimed")));
            }
            None
        }
    }
}

pub fn crash_points(rng: &mut Rng, writes: &[WriteRec], tier: &str) -> Vec<CrashPoint> {
    let mut pts = vec![];
    let cap = if tier == "thorough" { 400 } else { 120 };
    let stride = (writes.len() / cap).max(1);
    for p in 0..=writes.len() {
        if p % stride == 0 || p == writes.len() {
            pts.push(CrashPoint { full: p, torn_pages: None });
        }
        if p < writes.len() && p % stride == 0 {
            let n = writes[p].len.div_ceil(PAGE);
            if n > 1 {
                // every page prefix (sampled when the write is long), plus seeded subsets
                let step = (n / 6).max(1);
                let mut j = 1;
                while j < n {
                    pts.push(CrashPoint { full: p, torn_pages: Some((0..j).collect()) });
                    j += step;
                }
                for _ in 0..2 {
                    let sel: Vec<usize> = (0..n).filter(|_| rng.chance(1, 2)).collect();
                    if !sel.is_empty() && sel.len() < n {
                        pts.push(CrashPoint { full: p, torn_pages: Some(sel) });
                    }
                }
                // only the last page (the first pages lost)
                pts.push(CrashPoint { full: p, torn_pages: Some(vec![n - 1]) });
            }
        }
    }
    pts
}

/// Crash states beyond issue-order prefixes: at the moment write #i was issued, every write that had completed is on the
/// device and any subset of the writes still in flight may have landed.  Returns (i, applied write indices) for the
/// moments with at least two writes in flight, excluding subsets that are issue-order prefixes.
pub fn inflight_subsets(rng: &mut Rng, writes: &[WriteRec], cap: usize) -> Vec<(usize, Vec<usize>)> {
    let mut out = vec![];
    for (i, wi) in writes.iter().enumerate() {
        let t = wi.t_issue;
        // membership by the stamps, not by log position: two flushers can take their issue stamps and their log slots in
        // different orders, so a write with a larger issue stamp may sit at a smaller index
        let issued = |j: &usize| writes[*j].t_issue <= t;
        let done = |j: &usize| writes[*j].t_complete != 0 && writes[*j].t_complete < t;
        let completed: Vec<usize> = (0..writes.len()).filter(|j| issued(j) && done(j)).collect();
        let inflight: Vec<usize> = (0..writes.len()).filter(|j| issued(j) && !done(j)).collect();
        if inflight.len() < 2 || inflight.len() > 6 {
            continue;
        }
        let n = inflight.len();
        let mut masks: Vec<u32> = (1..(1u32 << n) - 1).collect();
        rng.shuffle(&mut masks);
        for m in masks.into_iter().take(4) {
            let chosen: Vec<usize> = (0..n).filter(|b| m & (1 << b) != 0).map(|b| inflight[b]).collect();
            let mut applied = completed.clone();
            applied.extend(chosen);
            applied.sort();
            // a set {0..k} is an ordinary prefix, already enumerated
            if applied.iter().enumerate().all(|(x, y)| x == *y) {
                continue;
            }
            out.push((i, applied));
        }
        if out.len() >= cap {
            break;
        }
    }
    out
}

pub fn build_image(base: &MemImage, writes: &[WriteRec], cp: &CrashPoint) -> MemImage {
    let mut img = base.clone();
    for w in &writes[..cp.full] {
        img.apply(w);
    }
    if let Some(p) = &cp.torn_pages {
        img.apply_pages(&writes[cp.full], Some(p));
    }
    img
}

/// ops of one cycle as they may be reflected at a crash point
pub fn classify(ops: &[OpRec], cp: &CrashPoint) -> Vec<(u64, Kind, Status)> {
    let touched = cp.full + cp.torn_pages.is_some() as usize;
    ops.iter()
        .filter(|o| o.writes_before < touched || matches!(o.acked_at, Some(a) if a <= cp.full))
        .map(|o| {
            let st = if matches!(o.acked_at, Some(a) if a <= cp.full) { Status::Acked } else { Status::Maybe };
            (o.key, o.kind.clone(), st)
        })
        .collect()
}

#[derive(Default)]
pub struct Outcome {
    pub problems: Vec<(String, String, serde_json::Value)>,
    pub images: u64,
    pub torn_images: u64,
    pub subset_images: u64,
    pub lookups: u64,
    pub hits: u64,
    pub acked_judged: u64,
    pub strong_hits: u64,
    pub reclaimed_images: u64,
    pub cycles_run: u64,
    pub writes: u64,
    pub image_hashes: BTreeSet<u64>,
    pub inconclusive: Vec<String>,
    pub sample: Option<serde_json::Value>,
}

pub fn run_plan(plan: &Plan, tier: &str) -> Outcome {
    let cfg = &plan.cfg;
    let mut out = Outcome::default();
    let mut rng = Rng::derive(plan.pick, 4);
    let mut base = MemImage::empty(cfg);
    let mut versions: BTreeMap<u64, u32> = BTreeMap::new();
    // ops of earlier cycles that may be reflected in `base`
    let mut carried: Vec<(u64, Kind, Status)> = vec![];
    let mut reclaimed_before = false;
    for (ci, ops) in plan.cycles.iter().enumerate() {
        let run = match crate::with_rt(3, run_cycle(cfg, &base, ci, ops, &mut versions)) {
            Ok(r) => r,
            Err(e) => {
                out.inconclusive.push(format!("cycle {ci}: {e}"));
                return out;
            }
        };
        out.cycles_run += 1;
        out.writes += run.writes.len() as u64;
        let pts = crash_points(&mut rng, &run.writes, tier);
        let mut candidates = vec![];
        for cp in &pts {
            let img = build_image(&base, &run.writes, cp);
            let h = {
                let mut x = 0xcbf2_9ce4_8422_2325u64;
                for (id, d) in &img.0 {
                    x ^= fnv(d).wrapping_add(*id as u64);
                    x = x.wrapping_mul(0x0000_0100_0000_01B3);
                }
                x
            };
            let touched = cp.full + cp.torn_pages.is_some() as usize;
            let reclaimed = reclaimed_before || run.writes[..touched.min(run.writes.len())].iter().any(|w| is_clean_write(cfg, w));
            let mut hist: BTreeMap<u64, Vec<(Kind, Status)>> = BTreeMap::new();
            for (k, kind, st) in carried.iter().cloned().chain(classify(&run.ops, cp)) {
                hist.entry(k).or_default().push((kind, st));
            }
            let (seen, reclaimed_now) = match crate::with_rt(2, read_back(cfg, &img, plan.keys)) {
                Ok(s) => s,
                Err(e) if e == "TIMEOUT" => {
                    if let Ok(d) = std::env::var("VH_KEEP_HANG") {
                        let dd = std::path::PathBuf::from(d).join(format!("hang-{}-{}", std::process::id(), out.inconclusive.len()));
                        img.write_to(&dd);
                        std::fs::write(dd.join("cfg.json"), serde_json::to_string(&json!({"cfg":cfg,"keys":plan.keys})).unwrap()).unwrap();
                    }
                    out.inconclusive.push(format!("cycle {ci} crash point {cp:?}: reopen + lookups did not finish within 120 s"));
                    continue;
                }
                Err(e) if e.contains("os error 24") => {
                    out.inconclusive.push(format!("out of file descriptors: {e}"));
                    continue;
                }
                Err(e) if e.starts_with("WEDGED") => {
                    if out.problems.len() < 4 {
                        out.problems.push(("recovered-store-wedged:close-hangs".into(), format!("cycle {ci}, crash after {} complete writes (torn pages {:?}): {e}", cp.full, cp.torn_pages), json!({"cycle":ci,"crash_point":cp})));
                    }
                    continue;
                }
                Err(e) => {
                    let sig = if e.contains("panicked") { format!("reopen-panicked:{}", crate::normalise(&e).chars().take(60).collect::<String>()) } else { "reopen-failed".to_string() };
                    out.problems.push((sig, format!("cycle {ci}, crash after {} complete writes (torn pages {:?}): {e}", cp.full, cp.torn_pages), json!({"cycle":ci,"crash_point":cp})));
                    continue;
                }
            };
            let reclaimed = reclaimed || reclaimed_now;
            out.images += 1;
            out.image_hashes.insert(h);
            if cp.torn_pages.is_some() {
                out.torn_images += 1;
            }
            if reclaimed {
                out.reclaimed_images += 1;
            }
            for (k, s) in &seen {
                out.lookups += 1;
                if matches!(s, Seen::Hit(_)) {
                    out.hits += 1;
                }
                let has_acked = hist.get(k).map(|l| l.iter().any(|(_, st)| *st == Status::Acked)).unwrap_or(false);
                if has_acked && !reclaimed {
                    out.acked_judged += 1;
                    if matches!(s, Seen::Hit(_)) {
                        out.strong_hits += 1;
                    }
                }
                if let Some((sig, detail)) = judge(cfg, &hist, reclaimed, *k, s) {
                    if std::env::var("VH_DEBUG").is_ok() && out.problems.is_empty() {
                        eprintln!("--- write log of cycle {ci} ({} writes), crash point {cp:?}", run.writes.len());
                        for w in &run.writes {
                            eprintln!("  #{} part {} off {} len {} issue {} complete {}", w.seq, w.partition, w.offset, w.len, w.t_issue, w.t_complete);
                        }
                        let d = DirGuard(hyb::scratch_dir("c04dbg"));
                        img.write_to(&d.0);
                        let pi = crate::image::parse_image(cfg, &d.0);
                        for e in &pi.entries {
                            eprintln!("  parsed: block {} blob@{} off {} len {} hash {} seq {} {:?}", e.block, e.blob_offset, e.offset, e.len, e.hash, e.sequence, e.payload);
                        }
                        eprintln!("  blobs per block {:?} problems {:?}", pi.blobs, pi.layout_problems);
                        for o in &run.ops {
                            eprintln!("  op {:?}", o);
                        }
                    }
                    if out.problems.len() < 4 {
                        let w = run.writes.get(cp.full).map(|w| json!({"partition":w.partition,"offset":w.offset,"len":w.len}));
                        // the torn write is the in-place rewrite of a blob index that is larger than one page
                        let torn_index = cp.torn_pages.is_some()
                            && cfg.blob_index_size > PAGE
                            && run.writes.get(cp.full).map(|w| w.len == cfg.blob_index_size && w.data.len() == w.len && crate::image::xxh64(&w.data[8..]) == u64::from_be_bytes(w.data[..8].try_into().unwrap())).unwrap_or(false);
                        out.problems.push((
                            format!("{sig}:tomb={}:idx={}{}", cfg.tombstone, cfg.blob_index_size, if torn_index { ":torn-multi-page-blob-index" } else if cp.torn_pages.is_some() { ":torn" } else { "" }),
                            format!("cycle {ci}, crash after {} of {} writes (torn pages of the next write: {:?}, next write {:?}): {detail}; history of the key: {:?}", cp.full, run.writes.len(), cp.torn_pages, w, hist.get(k)),
                            json!({"cycle":ci,"crash_point":cp,"key":k}),
                        ));
                    }
                }
            }
            if out.sample.is_none() && cp.full > 2 && seen.iter().any(|(_, s)| matches!(s, Seen::Hit(_))) {
                out.sample = Some(json!({"cycle":ci,"crash_point":cp,"writes_in_cycle":run.writes.len(),
                    "ops": run.ops.iter().take(12).collect::<Vec<_>>(),
                    "read_back": seen.iter().map(|(k,s)| json!({"key":k,"seen":s})).collect::<Vec<_>>() }));
            }
            candidates.push((cp.clone(), img, reclaimed));
        }
        // crash states in which in-flight writes landed out of issue order
        if out.problems.is_empty() {
            for (i, applied) in inflight_subsets(&mut rng, &run.writes, if tier == "thorough" { 60 } else { 16 }) {
                let mut img = base.clone();
                for j in &applied {
                    img.apply(&run.writes[*j]);
                }
                let reclaimed = reclaimed_before || applied.iter().any(|j| is_clean_write(cfg, &run.writes[*j]));
                let mut hist: BTreeMap<u64, Vec<(Kind, Status)>> = BTreeMap::new();
                let issued_at_t = run.writes.iter().filter(|w| w.t_issue <= run.writes[i].t_issue).count();
                let ops_here = run.ops.iter().filter(|o| o.writes_before <= issued_at_t).map(|o| {
                    let acked = matches!(o.acked_at, Some(a) if a <= issued_at_t && (0..a).all(|j| applied.contains(&j)));
                    (o.key, o.kind.clone(), if acked { Status::Acked } else { Status::Maybe })
                });
                for (k, kind, st) in carried.iter().cloned().chain(ops_here) {
                    hist.entry(k).or_default().push((kind, st));
                }
                let (seen, reclaimed_now) = match crate::with_rt(2, read_back(cfg, &img, plan.keys)) {
                    Ok(s) => s,
                    Err(e) if e == "TIMEOUT" || e.contains("os error 24") => {
                        out.inconclusive.push(format!("cycle {ci} in-flight subset at write {i}: {e}"));
                        continue;
                    }
                    Err(e) => {
                        out.problems.push((format!("reopen-failed-or-panicked:inflight-subset:{}", crate::normalise(&e).chars().take(40).collect::<String>()), format!("cycle {ci}, crash while write #{i} was being issued, writes on the device {applied:?}: {e}"), json!({"cycle":ci,"applied":applied})));
                        continue;
                    }
                };
                out.images += 1;
                out.subset_images += 1;
                let reclaimed = reclaimed || reclaimed_now;
                for (k, sn) in &seen {
                    out.lookups += 1;
                    if let Some((sig, detail)) = judge(cfg, &hist, reclaimed, *k, sn) {
                        if std::env::var("VH_DEBUG").is_ok() && out.problems.is_empty() {
                            eprintln!("--- SUBSET cycle {ci} i={i} applied {applied:?} key {k} seen {sn:?} sig {sig}");
                            for w in &run.writes {
                                eprintln!("  #{} part {} off {} len {} issue {} complete {} entries {:?}", w.seq, w.partition, w.offset, w.len, w.t_issue, w.t_complete, crate::c09::entries_in_write(w));
                            }
                            let d = DirGuard(hyb::scratch_dir("c04dbg"));
                            img.write_to(&d.0);
                            let pi = crate::image::parse_image(cfg, &d.0);
                            for e in &pi.entries {
                                eprintln!("  parsed: block {} blob@{} off {} len {} hash {} seq {} {:?}", e.block, e.blob_offset, e.offset, e.len, e.hash, e.sequence, e.payload);
                            }
                            for o in &run.ops {
                                eprintln!("  op {:?}", o);
                            }
                            eprintln!("  hist {:?}", hist.get(k));
                        }
                        if out.problems.len() < 4 {
                            out.problems.push((
                                format!("{sig}:tomb={}:idx={}:inflight-subset", cfg.tombstone, cfg.blob_index_size),
                                format!("cycle {ci}, crash at the moment write #{i} was issued; completed writes plus a subset of the in-flight ones are on the device: {applied:?} (of {} issued): {detail}; history of the key: {:?}", i + 1, hist.get(k)),
                                json!({"cycle":ci,"applied":applied,"key":k}),
                            ));
                        }
                    }
                }
            }
        }
        if !out.problems.is_empty() || candidates.is_empty() {
            return out;
        }
        // the machine restarts from one of the crash images (bias towards late ones: more state)
        let n = candidates.len();
        let idx = if rng.chance(1, 2) { n - 1 - rng.usize((n / 4).max(1)) } else { rng.usize(n) };
        let (cp, img, reclaimed) = candidates.swap_remove(idx);
        carried.extend(classify(&run.ops, &cp));
        reclaimed_before = reclaimed;
        base = img;
    }
    out
}

pub fn run(seed: u64, tier: &str, shard: usize, nshards: usize) -> ShardResult {
    let mut res = ShardResult::new("c04", seed);
    let total = if tier == "thorough" { 1600 } else { 160 };
    let mut rng = Rng::derive(seed, 0xC04_000 + shard as u64);
    for _ in 0..(total / nshards.max(1)).max(1) {
        let plan = gen_plan(&mut rng, tier);
        // development aid: restrict a run to the plans with a given blob index size
        if let Ok(only) = std::env::var("VH_C04_ONLY_IDX") {
            if only.parse::<usize>().ok() != Some(plan.cfg.blob_index_size) || plan.cfg.tombstone {
                continue;
            }
        }
        let o = run_plan(&plan, tier);
        absorb(&mut res, &plan, o);
    }
    res
}

fn absorb(res: &mut ShardResult, plan: &Plan, o: Outcome) {
    res.evaluations += o.images;
    res.count("workloads", 1);
    res.count("crash_images_reopened", o.images);
    res.count("torn_images", o.torn_images);
    res.count("images_with_in_flight_writes_landed_out_of_issue_order", o.subset_images);
    res.count("lookups_after_recovery", o.lookups);
    res.count("hits_after_recovery", o.hits);
    res.count("key_verdicts_with_acked_op_no_reclaim", o.acked_judged);
    res.count("hits_judged_by_strong_clause", o.strong_hits);
    res.count("images_after_reclaim_weak_clause_only", o.reclaimed_images);
    res.count("restart_cycles", o.cycles_run);
    res.count("device_writes_logged", o.writes);
    res.count(&format!("cfg_policy_{:?}", plan.cfg.policy), 1);
    res.count(&format!("cfg_tombstone_{}", plan.cfg.tombstone), 1);
    res.count(&format!("cfg_blob_index_{}", plan.cfg.blob_index_size), 1);
    res.count(&format!("cfg_comp_{:?}", plan.cfg.compression), 1);
    // non-trivial: a distinct device image (by content) on which at least one key had an acknowledged op
    if o.acked_judged > 0 {
        res.nontrivial_hashes.extend(o.image_hashes);
    }
    if let Some(s) = o.sample {
        if res.samples.len() < 2 {
            res.sample(json!({"cfg": plan.cfg, "case": s}));
        }
    }
    for e in o.inconclusive {
        res.inconclusive += 1;
        res.inconclusive_notes.push(e);
    }
    for (sig, detail, at) in o.problems.into_iter().take(2) {
        res.violate(format!("C04:{sig}"), detail, json!({"check":"c04","plan":plan,"at":at}));
    }
}

pub fn replay(plan: Plan) -> ShardResult {
    let mut res = ShardResult::new("c04-replay", 0);
    let o = run_plan(&plan, "thorough");
    absorb(&mut res, &plan, o);
    res
}
