//! C07: what the flusher writes is what recovery and lookups read back.  Batches are shaped with
//! the flush hold; the device image is parsed by the independent reader (image.rs).
use std::collections::{BTreeMap, BTreeSet};

use foyer::RecoverMode;
use serde_json::json;

use crate::{
    hscript::{Exec, HOp, Loc},
    hyb::{self, Comp, HCfg, Policy, Seen, PAGE},
    image::{self, Payload},
    mem::{AlgoCfg, Algo},
    out::ShardResult,
    rng::{fnv, Rng},
    value::Stamp,
};

pub struct Plan {
    pub cfg: HCfg,
    /// rounds of batches: each batch is a list of (key, size)
    pub batches: Vec<Vec<(u64, usize)>>,
    /// per batch: replace it at run time by exactly as many small entries as the open blob's index still has free
    /// slots (a blob continued across batches whose index fills exactly at a batch end); single flusher only
    pub fill_exact: Vec<bool>,
    /// wrapped device: blocks are reclaimed and reused, the new life of the first block ends on an old blob boundary
    pub wrap: bool,
}

/// device wraps once: `nb` blocks of 1 MiB are filled with one-page entries (two blobs per block), then exactly one
/// more blob index worth of entries goes into the recycled first block
fn gen_wrap_plan(rng: &mut Rng) -> Plan {
    let mut cfg = HCfg::small(AlgoCfg::default_for(Algo::Fifo));
    cfg.policy = Policy::WriteOnInsertion;
    cfg.mem_capacity = 4096;
    cfg.blob_index_size = 4096;
    cfg.block_size = 1024 * 1024;
    cfg.blocks = 4 + rng.usize(2);
    cfg.flushers = 1;
    cfg.compression = Comp::None;
    cfg.tombstone = false;
    cfg.buffer_pool_size = 8 * 1024 * 1024;
    cfg.clean_block_threshold = 1;
    let index_cap = (cfg.blob_index_size - 12) / 24;
    let pages = cfg.block_size / PAGE;
    // entries per block with one-page entries: full blobs of index_cap entries + index page each, then the rest
    let mut per_block = 0usize;
    let mut left = pages;
    while left > 1 {
        let n = (left - 1).min(index_cap);
        per_block += n;
        left -= n + 1;
    }
    let total = cfg.blocks * per_block + index_cap * (1 + rng.usize(2)) - if rng.chance(1, 4) { rng.usize(3) } else { 0 };
    let mut batches = vec![];
    let mut k = 0u64;
    let mut remaining = total;
    while remaining > 0 {
        let n = remaining.min(40 + rng.usize(120));
        batches.push((0..n).map(|_| { k += 1; (k - 1, 900 + (k as usize % 7) * 100) }).collect());
        remaining -= n;
    }
    let nb = batches.len();
    Plan { cfg, batches, fill_exact: vec![false; nb], wrap: true }
}

fn gen_plan(rng: &mut Rng, tier: &str) -> Plan {
    if rng.chance(1, 8) {
        return gen_wrap_plan(rng);
    }
    let mut cfg = HCfg::small(AlgoCfg::default_for(Algo::Fifo));
    cfg.policy = Policy::WriteOnInsertion;
    cfg.mem_capacity = 4096;
    cfg.blob_index_size = *rng.pick(&[4096, 4096, 8192]);
    let big = rng.chance(1, 3);
    cfg.block_size = if big { 1024 * 1024 } else { *rng.pick(&[16 * 1024, 32 * 1024, 64 * 1024]) };
    cfg.blocks = if big { 4 } else { 8 + rng.usize(9) };
    cfg.flushers = 1 + rng.usize(2);
    cfg.compression = *rng.pick(&[Comp::None, Comp::None, Comp::Zstd, Comp::Lz4]);
    cfg.tombstone = rng.chance(1, 3);
    cfg.buffer_pool_size = 4 * 1024 * 1024 * cfg.flushers;
    cfg.clean_block_threshold = 1;
    let max = cfg.max_entry_size();
    let index_cap = (cfg.blob_index_size - 12) / 24;
    let pages_per_block = cfg.block_size / PAGE;
    // stay below the device (data pages only: every blob spends blob_index_size on its index): no reclaim in the main part
    let budget_pages = cfg.blocks * (pages_per_block - cfg.blob_index_size / PAGE) * 6 / 10;
    let mut used = 0usize;
    let mut batches = vec![];
    let mut next_key = 0u64;
    let rounds = if tier == "thorough" { 3 + rng.usize(6) } else { 2 + rng.usize(4) };
    for _ in 0..rounds {
        let shape = rng.below(7);
        let n = match shape {
            0 => 1,
            1 => index_cap,                          // fills a blob index exactly (if the block is large enough)
            2 => index_cap + 1 + rng.usize(3),
            3 => pages_per_block - cfg.blob_index_size / PAGE, // fills a block exactly with one-page entries
            4 => 2 + rng.usize(6),
            5 => pages_per_block + 3,                // spans blocks in one batch
            _ => 1 + rng.usize(20),
        };
        let mut batch = vec![];
        for _ in 0..n {
            let size = match rng.below(10) {
                0 => 28,
                1 => 4096 - 36 - 8 - 8,             // exactly one page with header, key and length prefix
                2 => 4096 - 36 - 8 - 8 + 1,
                3 => max - 36 - 16,                  // the largest storable entry
                4 => 1 + rng.usize(3 * PAGE),
                _ => 28 + rng.usize(900),
            };
            let size = if matches!(shape, 1 | 2 | 3 | 5) { 28 + rng.usize(100) } else { size };
            // entries beyond the per-entry maximum are refused as a whole (C08); this check is about stored entries
            let size = size.min(max - 36 - 16 - if cfg.compression == Comp::None { 0 } else { 512 }); // incompressible payloads grow under zstd/lz4 framing
            let pages = (size + 36 + 16).div_ceil(PAGE);
            if used + pages > budget_pages {
                break;
            }
            used += pages;
            // some overwrites of earlier keys
            let k = if next_key > 3 && rng.chance(1, 6) { rng.below(next_key) } else { next_key += 1; next_key - 1 };
            batch.push((k, size));
        }
        // the entry that fills a blob index is exactly a page multiple on the device (36-byte header + 8-byte key + 8-byte length)
        if matches!(shape, 1 | 2) && !batch.is_empty() && rng.chance(1, 2) {
            let last = batch.len().min(index_cap) - 1;
            batch[last].1 = PAGE - 36 - 8 - 8;
        }
        if !batch.is_empty() {
            batches.push(batch);
        }
    }
    let fill_exact = batches.iter().enumerate().map(|(i, _)| i > 0 && cfg.flushers == 1 && rng.chance(1, 3)).collect();
    Plan { cfg, batches, fill_exact, wrap: false }
}

pub struct Outcome {
    pub problems: Vec<(String, String)>,
    pub entries_parsed: usize,
    pub blobs: usize,
    pub index_full_blobs: usize,
    pub multi_block_batches: usize,
    pub continued_blobs: usize,
    pub exact_fills: usize,
    pub blocks_reclaimed: usize,
}

async fn run_plan(plan: &Plan) -> Result<Outcome, String> {
    let cfg = &plan.cfg;
    let mut ex = Exec::new(cfg.clone()).await.map_err(|e| format!("open: {e}"))?;
    let mut problems: Vec<(String, String)> = vec![];
    let mut latest: BTreeMap<u64, Stamp> = BTreeMap::new();
    let mut all: BTreeSet<Stamp> = BTreeSet::new();
    let mut multi_block_batches = 0;
    let mut exact_fills = 0usize;
    let index_cap = (cfg.blob_index_size - 12) / 24;
    let mut fresh_key = 1_000_000u64;
    for (bi, batch) in plan.batches.iter().enumerate() {
        let mut batch = batch.clone();
        if plan.fill_exact.get(bi).copied().unwrap_or(false) {
            // entries in the blob that is still open = the blob holding the highest sequence on the device
            let img = image::parse_image(cfg, &ex.dir.0);
            if let Some(last) = img.entries.iter().max_by_key(|e| e.sequence) {
                let in_blob = img.entries.iter().filter(|e| e.block == last.block && e.blob_offset == last.blob_offset).count();
                let used_pages = img.entries.iter().filter(|e| e.block == last.block).map(|e| e.len.div_ceil(PAGE)).sum::<usize>();
                let free = index_cap - in_blob.min(index_cap);
                // only when the block still has room for them (one page each) - otherwise the blob ends with the block anyway
                if free > 0 && free < index_cap && used_pages + free + 4 < cfg.block_size / PAGE {
                    batch = (0..free).map(|_| { fresh_key += 1; (fresh_key, 28 + (fresh_key as usize % 50)) }).collect();
                    if bi % 2 == 0 {
                        // ... and its last entry ends exactly on a page boundary
                        let n = batch.len();
                        batch[n - 1].1 = PAGE - 36 - 8 - 8;
                    }
                    exact_fills += 1;
                }
            }
        }
        let batch = &batch;
        ex.step(&HOp::HoldFlush).await;
        let w0 = ex.ctl.io.write_count();
        for (k, size) in batch {
            let o = ex.step(&HOp::Insert { k: *k, size: *size, loc: Loc::Default }).await;
            if let Some(Seen::Hit(s)) = o.seen {
                latest.insert(*k, s);
                all.insert(s);
            }
        }
        ex.step(&HOp::Wait).await;
        ex.step(&HOp::EvictMem).await;
        let ws = ex.ctl.io.snapshot_writes();
        let parts: BTreeSet<u32> = ws[w0..].iter().map(|w| w.partition).collect();
        if parts.len() > 1 {
            multi_block_batches += 1;
        }
        // quiescent: layout of everything written so far
        for (s, d) in image::check_write_log(cfg, &ws) {
            problems.push((format!("write-log:{s}"), d));
        }
        // quiescent: every key the disk tier claims can be loaded with the latest value
        for (k, want) in &latest {
            let claims = ex.cache().storage().may_contains(k);
            // straight from the disk tier (memory is bypassed)
            let seen = match ex.cache().storage().load(k).await {
                Ok(foyer::Load::Entry { key, value, .. }) => match crate::value::parse(&value) {
                    Ok(s) if key == *k => Seen::Hit(s),
                    Ok(s) => Seen::Corrupt(format!("entry of key {key} ({s:?})")),
                    Err(b) => Seen::Corrupt(format!("{b:?}")),
                },
                Ok(foyer::Load::Piece { piece, .. }) => match crate::value::parse(piece.value()) {
                    Ok(s) if *piece.key() == *k => Seen::Hit(s),
                    other => Seen::Corrupt(format!("queued piece {other:?}")),
                },
                Ok(foyer::Load::Miss) => Seen::Miss,
                Ok(foyer::Load::Throttled) => Seen::Error("throttled".into()),
                Err(e) => Seen::Error(format!("{:?}", e.kind())),
            };
            match seen {
                Seen::Hit(s) if s == *want => {}
                Seen::Miss if !claims => {}
                other => problems.push((
                    "claimed-key-not-loadable".into(),
                    format!("key {k}: may_contains = {claims}, load gave {other:?}, latest written version {want:?}"),
                )),
            }
        }
        if !problems.is_empty() {
            break;
        }
    }
    // graceful close, parse the image independently, reopen, compare
    ex.release_all();
    let c = ex.cache.take().unwrap();
    let _ = c.close().await;
    drop(c);
    ex.settle().await;
    let ws = ex.ctl.io.snapshot_writes();
    let cleans_before = ws.iter().filter(|w| w.offset == 0 && w.len == PAGE && w.data.iter().all(|b| *b == 0) && w.partition >= cfg.tombstone as u32).count();
    let img = image::parse_image(cfg, &ex.dir.0);
    for p in &img.layout_problems {
        problems.push(("image-layout".into(), p.clone()));
    }
    // every version written appears exactly once (no reclaim happened in this plan)
    let mut seen_stamps: BTreeMap<Stamp, usize> = BTreeMap::new();
    for e in &img.entries {
        match &e.payload {
            Payload::Value { key, stamp } => {
                if *key != stamp.key || e.hash != *key / cfg.hash_div.max(1) {
                    problems.push(("image-entry-key-mismatch".into(), format!("{e:?}")));
                }
                *seen_stamps.entry(*stamp).or_insert(0) += 1;
            }
            Payload::Bad(why) => problems.push(("image-entry-unreadable".into(), format!("indexed entry does not decode: {why}: block {} offset {} len {}", e.block, e.offset, e.len))),
        }
    }
    if cleans_before == 0 {
        for s in &all {
            match seen_stamps.get(s) {
                Some(1) => {}
                Some(n) => problems.push(("image-entry-duplicated".into(), format!("{s:?} appears {n} times on the device"))),
                None => problems.push(("image-entry-missing".into(), format!("{s:?} was written (flushed and waited for) but the independent reader does not find it"))),
            }
        }
    }
    // overlapping regions among parsed entries of one block
    let mut by_block: BTreeMap<u32, Vec<(usize, usize)>> = BTreeMap::new();
    for e in &img.entries {
        by_block.entry(e.block).or_default().push((e.offset, e.offset + e.len.div_ceil(PAGE) * PAGE));
    }
    for (b, mut v) in by_block {
        v.sort();
        for w in v.windows(2) {
            if w[1].0 < w[0].1 {
                problems.push(("image-entries-overlap".into(), format!("block {b}: regions {:?} and {:?}", w[0], w[1])));
            }
        }
    }
    let expected = image::expected_index(&img);
    let index_cap = (cfg.blob_index_size - 12) / 24;
    let mut per_blob: BTreeMap<(u32, usize), usize> = BTreeMap::new();
    for e in &img.entries {
        *per_blob.entry((e.block, e.blob_offset)).or_insert(0) += 1;
    }
    let index_full_blobs = per_blob.values().filter(|n| **n == index_cap).count();
    // a blob whose index page was written more than once was continued across batches
    let mut index_writes: BTreeMap<(u32, u64), usize> = BTreeMap::new();
    for w in ws.iter().filter(|w| w.len == cfg.blob_index_size && w.partition >= cfg.tombstone as u32) {
        *index_writes.entry((w.partition, w.offset)).or_insert(0) += 1;
    }
    let continued_blobs = index_writes.values().filter(|n| **n > 1).count();

    let reopened = hyb::open(cfg, &ex.dir.0, &ex.ctl, RecoverMode::Quiet).await;
    match reopened {
        Err(e) => problems.push(("reopen-failed".into(), format!("{e}"))),
        Ok(c) => {
            ex.cache = Some(c);
            ex.settle().await;
            let ws2 = ex.ctl.io.snapshot_writes();
            let reclaimed_after: BTreeSet<u32> = ws2[ws.len()..]
                .iter()
                .filter(|w| w.offset == 0 && w.len == PAGE && w.data.iter().all(|b| *b == 0))
                .map(|w| w.partition - cfg.tombstone as u32)
                .collect();
            for k in latest.keys() {
                let o = ex.step(&HOp::Get { k: *k }).await;
                let want = match expected.get(&(*k / cfg.hash_div.max(1))) {
                    Some(Some(e)) => match &e.payload {
                        Payload::Value { key, stamp } if key == k => {
                            if reclaimed_after.contains(&e.block) { None } else { Some(*stamp) }
                        }
                        _ => None,
                    },
                    _ => None,
                };
                let got = match &o.seen {
                    Some(Seen::Hit(s)) => Some(*s),
                    Some(Seen::Miss) => None,
                    other => {
                        problems.push(("lookup-after-reopen-bad".into(), format!("key {k}: {other:?}")));
                        continue;
                    }
                };
                if got != want {
                    problems.push((
                        "recovery-differs-from-image".into(),
                        format!("key {k}: lookup after reopen gives {got:?}, the independent reading of the device gives {want:?}"),
                    ));
                }
            }
        }
    }
    ex.finish().await;
    Ok(Outcome {
        problems,
        entries_parsed: img.entries.len(),
        blobs: img.blobs.iter().sum(),
        index_full_blobs,
        multi_block_batches,
        continued_blobs,
        exact_fills,
        blocks_reclaimed: cleans_before,
    })
}

pub fn run(seed: u64, tier: &str, shard: usize, nshards: usize) -> ShardResult {
    let mut res = ShardResult::new("c07", seed);
    let mut rt = tokio::runtime::Builder::new_multi_thread().worker_threads(3).enable_all().build().unwrap();
    let total = if tier == "thorough" { 2400 } else { 320 };
    let mut rng = Rng::derive(seed, 0xC07_000 + shard as u64);
    for i in 0..total / nshards.max(1) {
        // a closed HybridCache keeps its partition files open for as long as its runtime lives: recycle the runtime regularly
        if i % 10 == 9 {
            std::mem::replace(&mut rt, tokio::runtime::Builder::new_multi_thread().worker_threads(3).enable_all().build().unwrap()).shutdown_background();
        }
        let plan = gen_plan(&mut rng, tier);
        let r = rt.block_on(async { tokio::time::timeout(std::time::Duration::from_secs(300), run_plan(&plan)).await });
        res.evaluations += 1;
        match r {
            Err(_) => {
                res.inconclusive += 1;
                res.inconclusive_notes.push("plan did not finish within 300s".into());
            }
            Ok(Err(e)) => {
                res.inconclusive += 1;
                res.inconclusive_notes.push(e);
            }
            Ok(Ok(o)) => {
                res.count("entries_parsed", o.entries_parsed as u64);
                res.count("blobs_parsed", o.blobs as u64);
                res.count("index_full_blobs", o.index_full_blobs as u64);
                res.count("batches_spanning_blocks", o.multi_block_batches as u64);
                res.count("blobs_continued_across_batches", o.continued_blobs as u64);
                res.count("continued_blob_index_filled_exactly_at_batch_end", o.exact_fills as u64);
                res.count("blocks_reclaimed_before_close", o.blocks_reclaimed as u64);
                if plan.wrap {
                    res.count("wrapped_device_plans", 1);
                }
                res.count(&format!("cfg_block_{}", plan.cfg.block_size), 1);
                res.count(&format!("cfg_comp_{:?}", plan.cfg.compression), 1);
                if o.entries_parsed >= 2 {
                    res.nontrivial_hashes.insert(fnv(format!("{:?}{:?}", plan.cfg, plan.batches).as_bytes()));
                    if res.samples.len() < 2 {
                        res.sample(json!({"cfg":plan.cfg,"batch_sizes":plan.batches.iter().map(|b| b.len()).collect::<Vec<_>>(),
                            "entries_parsed":o.entries_parsed,"blobs":o.blobs,"index_full_blobs":o.index_full_blobs,"continued_blobs":o.continued_blobs}));
                    }
                }
                for (sig, detail) in o.problems.iter().take(1) {
                    res.violate(
                        format!("C07:{sig}"),
                        detail.clone(),
                        json!({"check":"c07","cfg":plan.cfg,"batches":plan.batches}),
                    );
                }
            }
        }
    }
    res
}
