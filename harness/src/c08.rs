//! C08: every storable key/value round-trips through the disk format bit-exactly.
//!   part A: `Code` impls (all numeric types, bool, String, Vec<u8>, Bytes): decode(encode(x)) == x,
//!           bytes written == estimated_size, every too-short buffer -> BufferSizeLimit, never Ok;
//!   part B: the real pipeline (insert -> flusher -> device -> load) for Vec<u8>/String/Bytes values
//!           and u64/String keys, sizes around page and per-entry limits, None/Zstd/Lz4.
use std::{fmt::Debug, sync::Arc};

use bytes::Bytes;
use foyer::{
    BlockEngineConfig, Code, DeviceBuilder, ErrorKind, FsDeviceBuilder, HybridCache, HybridCacheBuilder, HybridCachePolicy,
    HybridCacheProperties, StorageKey, StorageValue,
};
use serde_json::json;

use crate::{
    hyb::{self, Comp, PAGE},
    out::ShardResult,
    rng::{fnv, Rng},
};

/// reader that hands out at most `chunk` bytes per read call
struct Chunked<'a> {
    data: &'a [u8],
    pos: usize,
    chunk: usize,
}
impl std::io::Read for Chunked<'_> {
    fn read(&mut self, out: &mut [u8]) -> std::io::Result<usize> {
        let n = out.len().min(self.chunk).min(self.data.len() - self.pos);
        out[..n].copy_from_slice(&self.data[self.pos..self.pos + n]);
        self.pos += n;
        Ok(n)
    }
}

fn check_code<T: Code + PartialEq + Debug>(x: &T, fixed: bool, res: &mut ShardResult, tyname: &str) {
    res.evaluations += 1;
    res.count("code_values", 1);
    let est = x.estimated_size();
    let mut buf = vec![0xAAu8; est + 16];
    let mut w = &mut buf[..];
    let r = x.encode(&mut w);
    let written = est + 16 - w.len();
    let replay = json!({"check":"c08","part":"code","type":tyname,"value":format!("{x:?}").chars().take(200).collect::<String>()});
    if let Err(e) = r {
        res.violate(format!("C08:code:encode-failed:{tyname}"), format!("encode of {x:?} into a large buffer failed: {e}"), replay);
        return;
    }
    if fixed && written != est || !fixed && written != est {
        res.violate(
            format!("C08:code:size-mismatch:{tyname}"),
            format!("{tyname}: encode wrote {written} bytes, estimated_size() says {est}"),
            replay.clone(),
        );
    }
    match T::decode(&mut &buf[..written]) {
        Ok(y) if &y == x => {}
        Ok(y) => res.violate(format!("C08:code:roundtrip-differs:{tyname}"), format!("decode(encode({x:?})) = {y:?}"), replay.clone()),
        Err(e) => res.violate(format!("C08:code:decode-failed:{tyname}"), format!("decode of the encoding of {x:?} failed: {e}"), replay.clone()),
    }
    // decode must not depend on how the reader chunks the bytes (compression decoders deliver a value in several reads)
    for chunk in [1usize, 3, 7, 64, 1000] {
        if chunk >= written && chunk != 1 {
            continue;
        }
        let mut r = Chunked { data: &buf[..written], pos: 0, chunk };
        res.count("chunked_reader_decodes", 1);
        match T::decode(&mut r) {
            Ok(y) if &y == x => {}
            Ok(y) => {
                res.violate(format!("C08:code:chunked-roundtrip-differs:{tyname}"), format!("decode from a reader that returns at most {chunk} bytes per read gives {:?} for {:?}", format!("{y:?}").chars().take(80).collect::<String>(), format!("{x:?}").chars().take(80).collect::<String>()), replay.clone());
                break;
            }
            Err(e) => {
                res.violate(format!("C08:code:chunked-decode-failed:{tyname}"), format!("decode from a reader that returns at most {chunk} bytes per read failed: {e}"), replay.clone());
                break;
            }
        }
    }
    // every shorter destination must report the size limit, never succeed
    let limit = written.min(40);
    for short in (0..written).filter(|s| *s < limit || *s + 3 >= written || s % 997 == 0) {
        let mut small = vec![0u8; short];
        let mut w = &mut small[..];
        res.count("truncated_buffers_tried", 1);
        match x.encode(&mut w) {
            Ok(()) => {
                res.violate(
                    format!("C08:code:partial-success:{tyname}"),
                    format!("{tyname}: encoding {written} bytes into a {short}-byte buffer returned Ok"),
                    replay.clone(),
                );
                break;
            }
            Err(e) if e.kind() == ErrorKind::BufferSizeLimit => {}
            Err(e) => {
                res.violate(
                    format!("C08:code:wrong-error-kind:{tyname}:{:?}", e.kind()),
                    format!("{tyname}: encoding into a {short}-byte buffer gave {:?} instead of BufferSizeLimit", e.kind()),
                    replay.clone(),
                );
                break;
            }
        }
    }
    res.nontrivial_hashes.insert(fnv(format!("{tyname}{x:?}").as_bytes()));
    if res.samples.len() < 2 && written > 1 {
        res.sample(json!({"part":"code","type":tyname,"value":format!("{x:?}").chars().take(80).collect::<String>(),"encoded_bytes":written,"estimated_size":est,
            "truncated_destinations_tried": (0..written).filter(|s| *s < limit || *s + 3 >= written || s % 997 == 0).count()}));
    }
}

macro_rules! numeric {
    ($res:expr, $rng:expr, $($t:ty),*) => {$(
        for v in [<$t>::MIN, <$t>::MAX, 0 as $t, 1 as $t, <$t>::MAX / (2 as $t), <$t>::MIN / (2 as $t)] {
            check_code(&v, true, $res, stringify!($t));
        }
        for _ in 0..40 {
            let mut b = [0u8; 16];
            $rng.fill(&mut b);
            let v = <$t>::from_le_bytes(b[..std::mem::size_of::<$t>()].try_into().unwrap());
            if v == v { // skip NaN (not equal to itself)
                check_code(&v, true, $res, stringify!($t));
            }
        }
    )*};
}

fn part_a(rng: &mut Rng, res: &mut ShardResult, tier: &str) {
    numeric!(res, rng, u8, u16, u32, u64, u128, usize, i8, i16, i32, i64, i128, isize, f32, f64);
    check_code(&true, true, res, "bool");
    check_code(&false, true, res, "bool");
    let lens: Vec<usize> = if tier == "thorough" {
        (0..70).chain([255, 256, 257, 4095, 4096, 4097, 65535, 65536, 70000, 200_000]).collect()
    } else {
        (0..20).chain([255, 256, 4095, 4096, 4097, 65536]).collect()
    };
    for len in lens {
        let mut v = vec![0u8; len];
        rng.fill(&mut v);
        check_code(&v, false, res, "Vec<u8>");
        check_code(&Bytes::from(v.clone()), false, res, "Bytes");
        let s: String = (0..len).map(|i| ['a', 'é', '漢', '🦀', 'z'][(v.get(i).copied().unwrap_or(0) % 5) as usize]).collect();
        check_code(&s, false, res, "String");
    }
    check_code(&String::new(), false, res, "String");
}

// ------------------------------------------------------------------------------------- pipeline
pub trait TVal: StorageValue + Clone + PartialEq + Debug {
    fn make(rng: &mut Rng, len: usize, compressible: bool) -> Self;
    fn name() -> &'static str;
}
fn payload(rng: &mut Rng, len: usize, compressible: bool) -> Vec<u8> {
    let mut v = vec![0u8; len];
    if compressible {
        let mut i = 0;
        while i < len {
            let run = 8 + rng.usize(300);
            let b = (rng.next() & 0x7f) as u8;
            for x in v.iter_mut().skip(i).take(run) {
                *x = b;
            }
            i += run;
        }
    } else {
        rng.fill(&mut v);
        for x in v.iter_mut() {
            *x &= 0x7f;
        }
    }
    v
}
impl TVal for Vec<u8> {
    fn make(rng: &mut Rng, len: usize, c: bool) -> Self {
        payload(rng, len, c)
    }
    fn name() -> &'static str {
        "Vec<u8>"
    }
}
impl TVal for Bytes {
    fn make(rng: &mut Rng, len: usize, c: bool) -> Self {
        Bytes::from(payload(rng, len, c))
    }
    fn name() -> &'static str {
        "Bytes"
    }
}
impl TVal for String {
    fn make(rng: &mut Rng, len: usize, c: bool) -> Self {
        String::from_utf8(payload(rng, len, c)).unwrap()
    }
    fn name() -> &'static str {
        "String"
    }
}

pub trait TKey: StorageKey + Clone + Debug {
    fn make(i: u64) -> Self;
    fn name() -> &'static str;
}
impl TKey for u64 {
    fn make(i: u64) -> Self {
        i
    }
    fn name() -> &'static str {
        "u64"
    }
}
impl TKey for String {
    fn make(i: u64) -> Self {
        format!("key-{i}-{}", "k".repeat((i % 40) as usize))
    }
    fn name() -> &'static str {
        "String"
    }
}

async fn pipeline<K: TKey, V: TVal>(rng: &mut Rng, comp: Comp, tier: &str, res: &mut ShardResult) -> Result<(), String> {
    let dir = hyb::DirGuard(hyb::scratch_dir("c08"));
    let block_size = 64 * 1024;
    let blob_index = 4096;
    let device = FsDeviceBuilder::new(&dir.0).with_capacity(64 * block_size).build().map_err(|e| e.to_string())?;
    let engine = BlockEngineConfig::<K, V, HybridCacheProperties>::new(device)
        .with_block_size(block_size)
        .with_blob_index_size(blob_index)
        .with_buffer_pool_size(1024 * 1024)
        .with_compression(comp.to_foyer());
    let cache: HybridCache<K, V> = HybridCacheBuilder::new()
        .with_policy(HybridCachePolicy::WriteOnInsertion)
        .memory(16)
        .with_weighter(|_: &K, _: &V| 1)
        .storage()
        .with_engine_config(engine)
        .build()
        .await
        .map_err(|e| e.to_string())?;
    let max = block_size - blob_index;
    let key_room = 80;
    let mut lens: Vec<usize> = vec![0, 1, 2, 7, 8, 100, PAGE - 60, PAGE - 52, PAGE - 44, PAGE, PAGE + 1, 2 * PAGE - 52, 3 * PAGE];
    lens.extend([max - 200, max - key_room, max - 52, max - 44, max - 36, max, max + 1, max + PAGE, 2 * max]);
    if tier == "thorough" {
        for _ in 0..300 {
            lens.push(rng.usize(max + 2 * PAGE));
        }
        for d in 20..90 {
            lens.push(PAGE - d);
            lens.push(max - d);
        }
    } else {
        for _ in 0..40 {
            lens.push(rng.usize(max + PAGE));
        }
        for d in 40..60 {
            lens.push(PAGE - d);
            lens.push(max - d);
        }
    }
    let mut i = 0u64;
    // (encoded key bytes, encoded value bytes) of everything inserted
    let mut written: Vec<(Vec<u8>, Vec<u8>)> = vec![];
    for len in lens {
        for compressible in [false, true] {
            i += 1;
            let k = K::make(i);
            let v = V::make(rng, len, compressible);
            {
                let (mut kb, mut vb) = (vec![], vec![]);
                k.encode(&mut kb).map_err(|e| e.to_string())?;
                v.encode(&mut vb).map_err(|e| e.to_string())?;
                written.push((kb, vb));
            }
            let e = cache.insert(k.clone(), v.clone());
            drop(e);
            cache.storage().wait().await;
            cache.memory().evict_all();
            let got = cache.get(&k).await;
            res.evaluations += 1;
            res.count("pipeline_entries", 1);
            let raw = k.estimated_size() + v.estimated_size() + 36;
            let replay = json!({"check":"c08","part":"pipeline","key_type":K::name(),"value_type":V::name(),"len":len,"compressible":compressible,"compression":format!("{comp:?}")});
            match got {
                Ok(Some(e)) => {
                    res.count("pipeline_roundtrips", 1);
                    if e.value() != &v {
                        res.violate(
                            format!("C08:pipeline:value-differs:{}:{comp:?}", V::name()),
                            format!("{} of length {len} (compressible {compressible}) came back different from disk ({} vs {} bytes)", V::name(), e.value().estimated_size(), v.estimated_size()),
                            replay,
                        );
                    }
                    res.nontrivial_hashes.insert(fnv(format!("{}{}{len}{compressible}{comp:?}", K::name(), V::name()).as_bytes()));
                    if res.samples.len() < 4 && len > 100 {
                        res.sample(json!({"part":"pipeline","key_type":K::name(),"value_type":V::name(),"len":len,"compressible":compressible,"compression":format!("{comp:?}"),"raw_entry_bytes":raw,"loaded_equal":e.value() == &v}));
                    }
                }
                Ok(None) => {
                    res.count("pipeline_rejected", 1);
                    // rejected as a whole: fine if the entry cannot fit a block; an entry that fits uncompressed must be stored
                    if comp == Comp::None && raw.div_ceil(PAGE) * PAGE <= max {
                        res.violate(
                            format!("C08:pipeline:storable-entry-lost:{}:{comp:?}", V::name()),
                            format!("{} of length {len}: {raw} raw bytes fit a block ({max}) but the entry is absent after the flush", V::name()),
                            replay,
                        );
                    }
                }
                Err(e) => res.violate(
                    format!("C08:pipeline:load-error:{}:{comp:?}:{:?}", V::name(), e.kind()),
                    format!("{} of length {len}: load failed: {e}", V::name()),
                    replay,
                ),
            }
        }
    }
    cache.close().await.map_err(|e| e.to_string())?;
    // the recorded lengths equal the bytes actually written: read every entry back from the device files with the
    // independent reader (header, checksum over value_len + key_len bytes, decompression) and compare with what the
    // Code impls produce for the original key and value
    let mut on_disk = 0u64;
    for b in 0..64u32 {
        let data = crate::image::read_partition(&dir.0, b);
        let mut off = 0usize;
        while off + blob_index <= data.len() {
            let idx = &data[off..off + blob_index];
            if crate::image::xxh64(&idx[8..]) != u64::from_be_bytes(idx[..8].try_into().unwrap()) {
                break;
            }
            let count = u32::from_be_bytes(idx[8..12].try_into().unwrap()) as usize;
            if count == 0 {
                break;
            }
            let mut step = 0usize;
            for i in 0..count {
                let e = &idx[12 + i * 24..];
                let eoff = u32::from_be_bytes(e[16..20].try_into().unwrap()) as usize;
                let elen = u32::from_be_bytes(e[20..24].try_into().unwrap()) as usize;
                step = eoff + elen.div_ceil(PAGE) * PAGE;
                if off + eoff + elen > data.len() {
                    res.violate(format!("C08:image:entry-crosses-block:{}", V::name()), format!("block {b} entry {i} region {eoff}+{elen}"), json!({"check":"c08"}));
                    continue;
                }
                let region = &data[off + eoff..off + eoff + elen];
                let key_len = u32::from_be_bytes(region[0..4].try_into().unwrap()) as usize;
                let value_len = u32::from_be_bytes(region[4..8].try_into().unwrap()) as usize;
                res.count("image_entries_checked", 1);
                on_disk += 1;
                if 36 + key_len + value_len != elen {
                    res.violate(
                        format!("C08:image:recorded-lengths-disagree:{}:{comp:?}", V::name()),
                        format!("block {b} entry {i}: header key_len {key_len} + value_len {value_len} + 36 != indexed length {elen}"),
                        json!({"check":"c08","part":"pipeline","value_type":V::name()}),
                    );
                    continue;
                }
                match crate::image::decode_entry_raw(region) {
                    Err(why) => res.violate(
                        format!("C08:image:entry-unreadable:{}:{comp:?}", V::name()),
                        format!("block {b} entry {i} ({elen} bytes) does not decode with the independent reader: {why}"),
                        json!({"check":"c08","part":"pipeline","value_type":V::name()}),
                    ),
                    Ok((_h, _s, kb, vb)) => match written.iter().find(|(k, _)| *k == kb) {
                        None => res.violate(format!("C08:image:unknown-key-bytes:{}", K::name()), format!("block {b} entry {i}: key bytes {:?} were never written", &kb[..kb.len().min(24)]), json!({"check":"c08"})),
                        Some((_, want)) => {
                            if *want != vb {
                                res.violate(
                                    format!("C08:image:value-bytes-differ:{}:{comp:?}", V::name()),
                                    format!("block {b} entry {i}: decoded value encoding has {} bytes, the original encodes to {} bytes", vb.len(), want.len()),
                                    json!({"check":"c08","part":"pipeline","value_type":V::name()}),
                                );
                            }
                        }
                    },
                }
            }
            off += step.max(blob_index);
        }
    }
    if on_disk == 0 {
        return Err("no entry found on the device by the independent reader".into());
    }
    Ok(())
}

pub fn run(seed: u64, tier: &str, shard: usize, nshards: usize) -> ShardResult {
    let mut res = ShardResult::new("c08", seed);
    let mut rng = Rng::derive(seed, 0xC08_000 + shard as u64);
    if shard % 4 == 0 {
        part_a(&mut rng, &mut res, tier);
    }
    let rt = tokio::runtime::Builder::new_multi_thread().worker_threads(2).enable_all().build().unwrap();
    // 3 value types x 2 key types x 3 compressions = 18 pipelines over the shards
    let mut idx = 0;
    for comp in [Comp::None, Comp::Zstd, Comp::Lz4] {
        for vt in 0..3 {
            for kt in 0..2 {
                idx += 1;
                if idx % nshards != shard % nshards {
                    continue;
                }
                let r = rt.block_on(async {
                    match (kt, vt) {
                        (0, 0) => pipeline::<u64, Vec<u8>>(&mut rng, comp, tier, &mut res).await,
                        (0, 1) => pipeline::<u64, String>(&mut rng, comp, tier, &mut res).await,
                        (0, _) => pipeline::<u64, Bytes>(&mut rng, comp, tier, &mut res).await,
                        (_, 0) => pipeline::<String, Vec<u8>>(&mut rng, comp, tier, &mut res).await,
                        (_, 1) => pipeline::<String, String>(&mut rng, comp, tier, &mut res).await,
                        (_, _) => pipeline::<String, Bytes>(&mut rng, comp, tier, &mut res).await,
                    }
                });
                if let Err(e) = r {
                    res.inconclusive += 1;
                    res.inconclusive_notes.push(e);
                }
            }
        }
    }
    let _ = Arc::new(0);
    res
}
