//! C09: reusing disk space never damages live entries and never stalls writers.
//!
//! Mode A ("churn"): a single sequential client writes several device capacities of mixed-size
//! entries with overwrites, deletes and lookups while the completion order of device writes and
//! reads is perturbed through the io gates.  Oracles: (1) the exact per-key staleness / foreign value
//! oracle of hscript on every lookup; (2) block-generation discipline on the recorded write log (no
//! overlapping writes inside a generation, no clean page while a write to the block is in flight,
//! every generation starts at blob 0); (3) bounded progress: every op, wait() and close() returns
//! while the device is still making progress, a call that is still pending although the io wrapper
//! has been idle for 20 s is a stall; (4) every key admitted by the reinsertion filter still reads
//! its latest version at the final quiescent point; (5) with one flusher, one reclaimer, no deletes
//! and the default pickers blocks are cleaned oldest-filled first.
//!
//! Mode B ("owners"): several tasks on a multi-thread runtime, each the only writer of its own keys
//! (so the most recent completed update is exactly known to it) hammer a small device with several
//! flushers / reclaimers; own-key lookups are judged exactly, foreign-key lookups for foreign /
//! corrupt values; same write-log and progress oracles.
use std::{
    collections::{BTreeMap, BTreeSet},
    sync::{atomic::Ordering, Arc},
    time::Duration,
};

use foyer::RecoverMode;
use serde::{Deserialize, Serialize};
use serde_json::json;

use crate::{
    hscript::{Exec, HOp, Loc, Oracle},
    hyb::{self, Comp, Controls, DirGuard, HCfg, Policy, Seen, PAGE},
    image,
    io::{IoCtl, WriteRec},
    mem::{Algo, AlgoCfg},
    out::ShardResult,
    rng::{fnv, Rng},
    value::{self, Stamp},
};

#[derive(Clone, Debug, Serialize, Deserialize)]
pub struct Plan {
    pub cfg: HCfg,
    pub keys: u64,
    pub n_ops: usize,
    pub no_deletes: bool,
    pub gates: bool,
    pub seed: u64,
    /// mode B: number of owner tasks (0 = mode A)
    pub owners: usize,
    /// burst mode (c09burst.rs)
    #[serde(default)]
    pub burst: bool,
}

pub fn gen_plan(rng: &mut Rng, tier: &str, conc: bool) -> Plan {
    let mut cfg = HCfg::small(AlgoCfg::default_for(Algo::Fifo));
    cfg.policy = Policy::WriteOnInsertion;
    cfg.flush_on_close = rng.chance(1, 2);
    cfg.tombstone = rng.chance(1, 3);
    cfg.block_size = *rng.pick(&[16 * 1024, 32 * 1024, 64 * 1024]);
    cfg.flushers = 1 + rng.usize(3);
    cfg.reclaimers = 1 + rng.usize(2);
    cfg.clean_block_threshold = 1 + rng.usize(2);
    // block counts down to the smallest configuration the engine accepts without warning
    let min_blocks = 2 * (cfg.flushers + cfg.clean_block_threshold);
    cfg.blocks = min_blocks + *rng.pick(&[0usize, 0, 1, 2, 4, 8]);
    cfg.compression = *rng.pick(&[Comp::None, Comp::None, Comp::None, Comp::Lz4]);
    cfg.buffer_pool_size = 4 * 1024 * 1024 * cfg.flushers;
    cfg.mem_capacity = *rng.pick(&[4096, 8192, 16 * 1024]);
    cfg.mem_shards = 1;
    let no_deletes = rng.chance(1, 3);
    let simple = rng.chance(1, 4);
    if simple {
        // the configuration of the fill-order clause
        cfg.flushers = 1;
        cfg.reclaimers = 1;
        cfg.blocks = (2 * (1 + cfg.clean_block_threshold)).max(4) + rng.usize(5);
        if rng.chance(1, 2) {
            // many small blocks: a quarter of the device (the batch bound) is several blocks, so one batch has several
            // block writers waiting for clean blocks at once
            cfg.block_size = 16 * 1024;
            cfg.blocks = 16 + rng.usize(17);
        }
    }
    cfg.reinsert_mod = if no_deletes && simple { 0 } else { *rng.pick(&[0u64, 0, 2, 3]) };
    let cap_pages = cfg.blocks * (cfg.block_size / PAGE - 1);
    // live set at most a quarter of the device so that reinsertion always has room
    let keys = ((cap_pages / 8).max(6) as u64).min(if conc { 48 } else { 64 });
    let factor = 3 + rng.usize(4);
    let n_ops = (cap_pages * factor).min(if tier == "thorough" { 2400 } else { 700 });
    Plan { cfg, keys, n_ops, no_deletes: no_deletes && simple || no_deletes, gates: rng.chance(2, 3), seed: rng.next(), owners: if conc { 3 + rng.usize(4) } else { 0 }, burst: false }
}

/// bytes an entry with a value of `size` bytes occupies on the device (entries are page aligned)
fn on_disk(size: usize) -> usize {
    (size.max(value::MIN_LEN) + 36 + 16).div_ceil(PAGE) * PAGE
}

fn is_clean_write(cfg: &HCfg, w: &WriteRec) -> bool {
    w.partition >= cfg.tombstone as u32 && w.offset == 0 && w.len == PAGE && w.data.len() == PAGE && w.data.iter().all(|b| *b == 0)
}

#[derive(Debug, Clone)]
pub struct Generation {
    pub partition: u32,
    pub start_t: u64,
    pub end_t: u64,
    pub first_offset: u64,
    pub min_offset: u64,
    pub cleaned_at: Option<usize>,
    pub writes: usize,
    /// range of entry sequences found in the data writes of this generation
    pub min_seq: u64,
    pub max_seq: u64,
}

/// (hash, sequence) of every entry in a data write.  The write is walked entry by entry (header, then the page-aligned
/// length it announces): io buffers are reused, so padding pages can contain stale headers of earlier batches.
pub fn entries_in_write(w: &WriteRec) -> Vec<(u64, u64)> {
    let mut out = vec![];
    if w.offset == 0 || w.data.len() != w.len {
        return out;
    }
    let mut o = 0usize;
    while o + image::HEADER_LEN <= w.data.len() {
        let b = &w.data[o..];
        let tag = u32::from_be_bytes(b[32..36].try_into().unwrap());
        if tag & 0xFFFF_FF00 != image::ENTRY_MAGIC || (tag & 0xFF) > 2 {
            break;
        }
        let key_len = u32::from_be_bytes(b[0..4].try_into().unwrap()) as usize;
        let value_len = u32::from_be_bytes(b[4..8].try_into().unwrap()) as usize;
        out.push((u64::from_be_bytes(b[8..16].try_into().unwrap()), u64::from_be_bytes(b[16..24].try_into().unwrap())));
        o += (image::HEADER_LEN + key_len + value_len).div_ceil(PAGE) * PAGE;
    }
    out
}

/// Block-generation discipline on the write log.
pub fn check_generations(cfg: &HCfg, writes: &[WriteRec], fifo_clause: bool) -> (Vec<(String, String)>, Vec<Generation>) {
    let mut problems = vec![];
    for (s, d) in image::check_write_log(cfg, writes) {
        problems.push((s, d));
    }
    let first_block = cfg.tombstone as u32;
    let mut open: BTreeMap<u32, Generation> = BTreeMap::new();
    let mut done: Vec<Generation> = vec![];
    let mut clean_no = 0usize;
    for w in writes.iter().filter(|w| w.partition >= first_block) {
        if is_clean_write(cfg, w) {
            // a clean page while a write to this block is still in flight: reclaimed while being written
            for x in writes.iter().filter(|x| x.partition == w.partition && x.seq != w.seq && !is_clean_write(cfg, x)) {
                let x_end = if x.t_complete == 0 { u64::MAX } else { x.t_complete };
                if x.t_issue < w.t_issue && w.t_issue < x_end {
                    problems.push((
                        "clean-while-write-in-flight".into(),
                        format!("block partition {}: the clean page (write #{}) was issued while write #{} {}+{} of the same block was still in flight", w.partition, w.seq, x.seq, x.offset, x.len),
                    ));
                    break;
                }
            }
            // the block must not be handed to its next writer before the clean page is on the device: a write
            // issued while the clean page is still in flight can be overtaken by it (the zero page then wipes the
            // new generation's first blob index)
            let c_end = if w.t_complete == 0 { u64::MAX } else { w.t_complete };
            if let Some(x) = writes.iter().find(|x| x.partition == w.partition && x.seq != w.seq && !is_clean_write(cfg, x) && w.t_issue < x.t_issue && x.t_issue < c_end) {
                problems.push((
                    "block-reused-before-clean-page-completed".into(),
                    format!("block partition {}: write #{} {}+{} was issued (t={}) while the clean page #{} of the same block (issued t={}, completed t={}) was still in flight", w.partition, x.seq, x.offset, x.len, x.t_issue, w.seq, w.t_issue, w.t_complete),
                ));
            }
            if let Some(mut g) = open.remove(&w.partition) {
                g.cleaned_at = Some(clean_no);
                done.push(g);
            }
            clean_no += 1;
            continue;
        }
        let end = if w.t_complete == 0 { w.t_issue } else { w.t_complete };
        let seqs: Vec<u64> = entries_in_write(w).into_iter().map(|(_, s)| s).collect();
        let g = open.entry(w.partition).or_insert(Generation {
            partition: w.partition,
            start_t: w.t_issue,
            end_t: end,
            first_offset: w.offset,
            min_offset: w.offset,
            cleaned_at: None,
            writes: 0,
            min_seq: u64::MAX,
            max_seq: 0,
        });
        g.end_t = g.end_t.max(end);
        g.min_offset = g.min_offset.min(w.offset);
        g.writes += 1;
        for s in seqs {
            g.min_seq = g.min_seq.min(s);
            g.max_seq = g.max_seq.max(s);
        }
    }
    done.extend(open.into_values());
    for g in &done {
        // the first blob of a generation puts its data right behind its index page
        if g.first_offset > cfg.blob_index_size as u64 {
            problems.push((
                "generation-not-starting-at-blob-0".into(),
                format!("block partition {}: the first write after the block was cleaned goes to offset {} (a writer kept appending to a block that had been reclaimed)", g.partition, g.first_offset),
            ));
        }
    }
    if fifo_clause {
        // X is older than Y both by time (completely written before Y was started) and by content (all its
        // entries have lower sequence numbers) => X is cleaned before Y.  (Within one batch the engine hands
        // clean blocks to the waiting block writers last-come-first-served, so either order alone is not
        // implied by a FIFO picker.)
        for x in &done {
            for y in &done {
                if x.end_t < y.start_t && x.max_seq != 0 && y.max_seq != 0 && x.max_seq < y.min_seq {
                    match (x.cleaned_at, y.cleaned_at) {
                        (Some(i), Some(j)) if i > j => problems.push((
                            "reclaim-order-not-oldest-first".into(),
                            format!("block partition {} (filled t={}..{}) was cleaned as #{} after partition {} (filled later, t={}..{}) cleaned as #{}", x.partition, x.start_t, x.end_t, i, y.partition, y.start_t, y.end_t, j),
                        )),
                        (None, Some(j)) => problems.push((
                            "reclaim-order-not-oldest-first".into(),
                            format!("block partition {} (filled t={}..{}) was never cleaned although partition {} filled later (t={}..{}) was cleaned as #{}", x.partition, x.start_t, x.end_t, y.partition, y.start_t, y.end_t, j),
                        )),
                        _ => {}
                    }
                }
            }
        }
    }
    if fifo_clause {
        // Within one flush batch (single flusher: batches never overlap in time) the block parts ask for clean blocks in
        // sequence order and must be served - and therefore start writing - in that order.
        let data: Vec<&WriteRec> = writes.iter().filter(|w| w.partition >= first_block && !is_clean_write(cfg, w) && w.offset != 0).collect();
        let mut group: Vec<&WriteRec> = vec![];
        let mut group_end = 0u64;
        let mut flush_group = |g: &mut Vec<&WriteRec>, problems: &mut Vec<(String, String)>| {
            // first data write of every partition touched by the batch, with the lowest entry sequence it carries
            let mut parts: BTreeMap<u32, (u64, u64)> = BTreeMap::new();
            for w in g.iter() {
                let min_seq = entries_in_write(w).into_iter().map(|(_, s)| s).min();
                if let Some(ms) = min_seq {
                    let e = parts.entry(w.partition).or_insert((w.t_issue, ms));
                    if w.t_issue < e.0 {
                        e.0 = w.t_issue;
                    }
                    e.1 = e.1.min(ms);
                }
            }
            let mut v: Vec<(u64, u64, u32)> = parts.into_iter().map(|(p, (t, q))| (q, t, p)).collect();
            v.sort();
            for pair in v.windows(2) {
                if pair[1].1 < pair[0].1 {
                    problems.push((
                        "batch-parts-written-out-of-sequence-order".into(),
                        format!("one flush batch: the block part starting at sequence {} (partition {}) began writing at t={} before the part starting at sequence {} (partition {}, t={}): clean blocks were not handed to the waiting block writers in arrival order", pair[1].0, pair[1].2, pair[1].1, pair[0].0, pair[0].2, pair[0].1),
                    ));
                    break;
                }
            }
            g.clear();
        };
        for w in data {
            if !group.is_empty() && w.t_issue > group_end {
                flush_group(&mut group, &mut problems);
                group_end = 0;
            }
            let end = if w.t_complete == 0 { u64::MAX } else { w.t_complete };
            group_end = group_end.max(end);
            group.push(w);
        }
        flush_group(&mut group, &mut problems);
    }
    problems.dedup_by(|a, b| a.0 == b.0);
    (problems, done)
}

#[derive(Default)]
pub struct Outcome {
    pub problems: Vec<(String, String)>,
    pub ops: u64,
    pub lookups: u64,
    pub judged: u64,
    pub hits_disk: u64,
    pub hits_mem: u64,
    pub misses: u64,
    pub cleans: u64,
    pub generations: u64,
    pub bytes_written: u64,
    pub capacities_written: f64,
    pub gate_releases: u64,
    pub reinsert_checked: u64,
    pub reinsert_hits: u64,
    pub fifo_pairs: u64,
    pub inconclusive: Vec<String>,
    pub order_hash: u64,
}

pub async fn bounded_pub<T>(io: &Arc<IoCtl>, what: &str, f: impl std::future::Future<Output = T>) -> Result<T, (bool, String)> {
    bounded(io, what, f).await
}

/// Await `f`; if it does not return, decide between stall (device idle for 20 s) and inconclusive.
async fn bounded<T>(io: &Arc<IoCtl>, what: &str, f: impl std::future::Future<Output = T>) -> Result<T, (bool, String)> {
    tokio::pin!(f);
    let mut idle_since: Option<std::time::Instant> = None;
    let mut last = io.issued.load(Ordering::SeqCst);
    let t0 = std::time::Instant::now();
    loop {
        match tokio::time::timeout(Duration::from_millis(500), &mut f).await {
            Ok(v) => return Ok(v),
            Err(_) => {
                let now = io.issued.load(Ordering::SeqCst);
                let inflight = io.inflight.load(Ordering::SeqCst);
                let held = io.held_writes().len() as u64 + io.held_reads() as u64;
                if now == last && inflight == 0 && held == 0 {
                    let s = idle_since.get_or_insert_with(std::time::Instant::now);
                    if s.elapsed() > Duration::from_secs(20) {
                        return Err((true, format!("{what} is still pending although no device io has been in flight or newly issued for 20 s and every gate is released")));
                    }
                } else {
                    idle_since = None;
                    last = now;
                }
                if t0.elapsed() > Duration::from_secs(240) {
                    return Err((false, format!("{what} did not return within 240 s while the device was still busy (inconclusive)")));
                }
            }
        }
    }
}

pub async fn run_churn(plan: &Plan) -> Outcome {
    let cfg = &plan.cfg;
    let mut out = Outcome::default();
    let mut ex = match Exec::new(cfg.clone()).await {
        Ok(e) => e,
        Err(e) => {
            out.inconclusive.push(format!("open: {e}"));
            return out;
        }
    };
    let io = ex.ctl.io.clone();
    let mut oracle = Oracle::default();
    let mut rng = Rng::derive(plan.seed, 9);
    let mut i = 0usize;
    let mut gate_age = 0usize;
    let mut held_bytes = 0usize;
    let mut pending_bytes = 0usize;
    let held_cap = cfg.blocks * cfg.block_size / 4;
    let mut missed_live: BTreeSet<u64> = BTreeSet::new();
    let mut stalled = false;
    while i < plan.n_ops && !stalled {
        let k = rng.below(plan.keys);
        let op = match rng.below(100) {
            0..=61 => HOp::Insert {
                k,
                size: match rng.below(6) {
                    0 => 28,
                    1 => 4096 - 36 - 16,
                    2 => 28 + rng.usize(2 * PAGE),
                    _ => 28 + rng.usize(3000),
                },
                loc: Loc::Default,
            },
            62..=85 => HOp::Get { k },
            86..=90 if !plan.no_deletes => HOp::Remove { k },
            91..=93 => HOp::EvictMem,
            94..=95 if plan.gates && !ex.writes_held => HOp::HoldWrites,
            96 if plan.gates => {
                io.hold_reads();
                HOp::Settle
            }
            97 => HOp::Settle,
            _ => HOp::Get { k },
        };
        // gates never stay closed for long: release held writes one by one in a seeded order.  A single flush batch
        // must stay well below the device (a batch larger than the device is reclaimed while it is being written),
        // so the gate also opens as soon as a quarter of the device is queued behind it.
        if let HOp::Insert { size, .. } = &op {
            if ex.writes_held {
                held_bytes += on_disk(*size);
            }
            // client-side backpressure (same rule as in owners mode)
            pending_bytes += on_disk(*size);
            if pending_bytes + 2 * PAGE > held_cap {
                ex.release_all();
                held_bytes = 0;
                gate_age = 0;
                if bounded(&io, "wait()", ex.cache().storage().wait()).await.is_err() {
                    out.problems.push(("stall:wait".into(), "wait() during the churn did not return although the device was idle".into()));
                    stalled = true;
                    break;
                }
                pending_bytes = 0;
            }
        }
        if ex.writes_held {
            gate_age += 1;
            if gate_age > 2 + rng.usize(6) || held_bytes + 2 * PAGE > held_cap {
                held_bytes = 0;
                let mut held = io.held_writes();
                rng.shuffle(&mut held);
                for s in held {
                    io.release_write(s);
                    out.gate_releases += 1;
                    tokio::time::sleep(Duration::from_micros(200)).await;
                }
                if rng.chance(1, 2) {
                    io.release_writes();
                    ex.writes_held = false;
                }
                gate_age = 0;
            }
        }
        if io.held_reads() > 0 || rng.chance(1, 3) {
            io.release_reads();
        }
        let flags = (ex.flush_held, ex.writes_held);
        // a lookup needs the read gate open to return
        if matches!(op, HOp::Get { .. }) {
            io.release_reads();
        }
        let r = bounded(&io, &format!("{op:?}"), ex.step(&op)).await;
        match r {
            Ok(o) => {
                // a live key that reads as a miss during the churn: remembered for the reinsertion clause
                match (&op, &o.seen) {
                    (HOp::Get { k }, Some(Seen::Miss)) if oracle.keys.get(k).map(|s| s.current.is_some()).unwrap_or(false) => {
                        missed_live.insert(*k);
                    }
                    (HOp::Insert { k, .. }, _) | (HOp::Remove { k }, _) => {
                        missed_live.remove(k);
                    }
                    _ => {}
                }
                let nf = oracle.findings.len();
                oracle.step(i, cfg, &o, flags);
                out.ops += 1;
                if std::env::var("VH_DEBUG").is_ok() {
                    eprintln!("  step {i} w={} {:?} -> {:?} src {:?}", o.writes_after, o.op, o.seen, o.source);
                    if oracle.findings.len() > nf {
                        eprintln!("  FINDING {:?}", oracle.findings.last());
                        for w in io.snapshot_writes().iter() {
                            eprintln!("   #{} part {} off {} len {} t {}..{} clean={} entries(hash,seq)={:?}", w.seq, w.partition, w.offset, w.len, w.t_issue, w.t_complete, is_clean_write(cfg, w), entries_in_write(w));
                        }
                    }
                }
            }
            Err((true, why)) => {
                out.problems.push(("stall".into(), why));
                stalled = true;
            }
            Err((false, why)) => {
                out.inconclusive.push(why);
                stalled = true;
            }
        }
        i += 1;
    }
    ex.release_all();
    if !stalled {
        match bounded(&io, "wait()", ex.cache().storage().wait()).await {
            Ok(()) => {}
            Err((true, why)) => {
                out.problems.push(("stall:wait".into(), why));
                stalled = true;
            }
            Err((false, why)) => {
                out.inconclusive.push(why);
                stalled = true;
            }
        }
    }
    if !stalled {
        ex.settle().await;
        // final quiescent point: exact lookups of every key, reinsertion clause
        for k in 0..plan.keys {
            let o = ex.step(&HOp::Get { k }).await;
            oracle.step(plan.n_ops + k as usize, cfg, &o, (false, false));
            let cur = oracle.keys.get(&k).and_then(|s| s.current);
            if cfg.reinsert_mod != 0 && k % cfg.reinsert_mod == 0 {
                if let Some(v) = cur {
                    out.reinsert_checked += 1;
                    match &o.seen {
                        Some(Seen::Hit(s)) if *s == v => out.reinsert_hits += 1,
                        other if missed_live.contains(&k) => out.problems.push((
                            "reinsertion-admitted-entry-lost:after-a-lookup-during-its-block-reclaim".into(),
                            format!("key {k}: the reinsertion filter admits it and its latest version {v:?} was written to disk; a lookup during the churn already read it as a miss (the reclaimer had released its block before the reinsertion was flushed, the lookup found foreign bytes at the old address and dropped the index entry, the reinsertion was then skipped); at the final quiescent point the lookup gives {other:?}"),
                        )),
                        other => out.problems.push((
                            "reinsertion-admitted-entry-lost".into(),
                            format!("key {k}: the reinsertion filter admits it and its latest version {v:?} was written to disk, but at the final quiescent point the lookup gives {other:?}"),
                        )),
                    }
                }
            }
            ex.step(&HOp::EvictMem).await;
        }
        let c = ex.cache.take().unwrap();
        match bounded(&io, "close()", c.close()).await {
            Ok(_) => {}
            Err((true, why)) => out.problems.push(("stall:close".into(), why)),
            Err((false, why)) => out.inconclusive.push(why),
        }
        drop(c);
    }
    for (sig, detail, _) in oracle.findings.iter().take(2) {
        out.problems.push((format!("lookup:{sig}"), detail.clone()));
    }
    out.lookups = oracle.judged_lookups + oracle.unjudged_lookups;
    out.judged = oracle.judged_lookups;
    out.hits_disk = oracle.hits_by_source.get("Disk").copied().unwrap_or(0);
    out.hits_mem = oracle.hits_by_source.get("Memory").copied().unwrap_or(0);
    finish_log(plan, &io, &mut out);
    if stalled {
        // leave the wedged instance behind (dropping it may block); the process exits soon anyway
        std::mem::forget(ex);
    } else {
        ex.finish().await;
    }
    out
}

fn finish_log(plan: &Plan, io: &Arc<IoCtl>, out: &mut Outcome) {
    let cfg = &plan.cfg;
    let ws = io.snapshot_writes();
    // the order clauses compare entry sequence numbers with write order: only meaningful with a single client (concurrent
    // clients draw sequence numbers and reach the flusher's queue in different orders)
    let fifo = cfg.flushers == 1 && cfg.reclaimers == 1 && plan.no_deletes && cfg.reinsert_mod == 0 && !cfg.tombstone && plan.owners == 0;
    let (problems, gens) = check_generations(cfg, &ws, fifo);
    if std::env::var("VH_DEBUG").is_ok() && !problems.is_empty() {
        for w in &ws {
            let mut ents = vec![];
            if w.offset != 0 {
                for pg in 0..w.data.len() / PAGE {
                    let b = &w.data[pg * PAGE..];
                    let tag = u32::from_be_bytes(b[32..36].try_into().unwrap());
                    if tag & 0xFFFF_FF00 == image::ENTRY_MAGIC {
                        ents.push((pg, u64::from_be_bytes(b[8..16].try_into().unwrap()), u64::from_be_bytes(b[16..24].try_into().unwrap()), u32::from_be_bytes(b[4..8].try_into().unwrap())));
                    }
                }
            }
            eprintln!("  #{} part {} off {} len {} issue {} complete {} clean={} entries(page,hash,seq,vlen)={:?}", w.seq, w.partition, w.offset, w.len, w.t_issue, w.t_complete, is_clean_write(cfg, w), ents);
        }
        for g in &gens {
            eprintln!("  gen {:?}", g);
        }
        eprintln!("  problems {:?}", problems);
    }
    for (s, d) in problems.into_iter().take(2) {
        out.problems.push((format!("write-log:{s}"), d));
    }
    out.cleans = ws.iter().filter(|w| is_clean_write(cfg, w)).count() as u64;
    out.generations = gens.len() as u64;
    if fifo {
        out.fifo_pairs = gens.iter().filter(|g| g.cleaned_at.is_some()).count() as u64;
    }
    out.bytes_written = ws.iter().map(|w| w.len as u64).sum();
    out.capacities_written = out.bytes_written as f64 / (cfg.blocks * cfg.block_size) as f64;
    // interleaving fingerprint: order in which writes completed relative to their issue order, and clean order
    let mut order: Vec<(u64, u64)> = ws.iter().map(|w| (w.t_complete, w.seq)).collect();
    order.sort();
    let perm: Vec<u64> = order.iter().map(|(_, s)| *s).collect();
    let cleans: Vec<u32> = ws.iter().filter(|w| is_clean_write(cfg, w)).map(|w| w.partition).collect();
    out.order_hash = fnv(format!("{perm:?}{cleans:?}").as_bytes());
}

pub async fn run_owners(plan: &Plan) -> Outcome {
    let cfg = plan.cfg.clone();
    let mut out = Outcome::default();
    let dir = DirGuard(hyb::scratch_dir("c09own"));
    let ctl = Controls::new();
    let io = ctl.io.clone();
    let cache = match hyb::open(&cfg, &dir.0, &ctl, RecoverMode::Quiet).await {
        Ok(c) => c,
        Err(e) => {
            out.inconclusive.push(format!("open: {e}"));
            return out;
        }
    };
    let owners = plan.owners.max(2);
    let per = plan.n_ops / owners;
    let mut handles = vec![];
    // bytes inserted since the io write gate was closed (same rule as in churn mode: a batch stays below a quarter of the device)
    let held_bytes = Arc::new(std::sync::atomic::AtomicUsize::new(0));
    let budget = Arc::new(parking_lot::Mutex::new(0usize));
    let held_cap = cfg.blocks * cfg.block_size / 4;
    let owners_cap = (cfg.blocks * cfg.block_size / 8).min(cfg.block_size).max(4 * PAGE);
    for t in 0..owners {
        let cache = cache.clone();
        let io = io.clone();
        let keys = plan.keys;
        let seed = plan.seed;
        let no_deletes = plan.no_deletes;
        let gates = plan.gates;
        let held_bytes = held_bytes.clone();
        let budget = budget.clone();
        let hlog = ctl.log.clone();
        handles.push(tokio::spawn(async move {
            // (call, return) stamps of the insert of the latest version of each own key
            let mut insert_span: BTreeMap<u64, (u64, u64)> = BTreeMap::new();
            // (call, return, key, kind) of every lookup (kind 0) and remove (kind 1): needed to tell a load that was in
            // flight across a remove from an unexplained stale hit
            let mut spans: Vec<(u64, u64, u64, u8)> = vec![];
            let mut remove_span: BTreeMap<u64, (u64, u64)> = BTreeMap::new();
            let mut rng = Rng::derive(seed, 100 + t as u64);
            let mut latest: BTreeMap<u64, Option<Stamp>> = BTreeMap::new();
            let mut versions: BTreeMap<u64, u32> = BTreeMap::new();
            let mut problems: Vec<(String, String)> = vec![];
            let debug = std::env::var("VH_DEBUG").is_ok();
            let mut evlog: Vec<(u64, u64, u64, String)> = vec![];
            let (mut lookups, mut judged, mut disk, mut mem, mut misses) = (0u64, 0u64, 0u64, 0u64, 0u64);
            let own: Vec<u64> = (0..keys).filter(|k| (*k as usize) % owners == t).collect();
            for _ in 0..per {
                match rng.below(100) {
                    0..=54 => {
                        let k = *rng.pick(&own);
                        let v = versions.entry(k).or_insert(0);
                        *v += 1;
                        let s = Stamp { key: k, writer: t as u32, version: *v };
                        let size = match rng.below(5) {
                            0 => 28,
                            1 => 28 + rng.usize(2 * PAGE),
                            _ => 28 + rng.usize(3000),
                        };
                        if held_bytes.fetch_add(on_disk(size), Ordering::SeqCst) + on_disk(size) + 2 * PAGE > held_cap {
                            io.release_writes();
                        }
                        // client-side backpressure, exact: inserts of all owners are admitted one at a time against a
                        // shared budget, so that a single flush batch never holds more than `owners_cap` bytes (at most
                        // one new block is completed per batch; a batch that completes several blocks on a tiny device
                        // is reclaimed while it is still being written - see DESIGN.md section 7)
                        let mut val = Some(value::make(s, size, false));
                        let t0;
                        loop {
                            {
                                // reservation and insert under one lock: everything counted in the budget is enqueued
                                let mut p = budget.lock();
                                if *p + on_disk(size) <= owners_cap || *p == 0 {
                                    *p += on_disk(size);
                                    t0 = io.now();
                                    drop(cache.insert(k, val.take().unwrap()));
                                    break;
                                }
                            }
                            io.release_writes();
                            let before = *budget.lock();
                            cache.storage().wait().await;
                            let mut p = budget.lock();
                            *p = p.saturating_sub(before);
                        }
                        insert_span.insert(k, (t0, io.now()));
                        if debug {
                            evlog.push((t0, io.now(), k, format!("T{t} insert v{} size {size}", s.version)));
                        }
                        latest.insert(k, Some(s));
                    }
                    55..=59 if !no_deletes => {
                        let k = *rng.pick(&own);
                        let t0 = io.now();
                        cache.remove(&k);
                        let t1 = io.now();
                        spans.push((t0, t1, k, 1));
                        remove_span.insert(k, (t0, t1));
                        if debug {
                            evlog.push((t0, io.now(), k, format!("T{t} remove")));
                        }
                        latest.insert(k, None);
                    }
                    60..=84 => {
                        let k = *rng.pick(&own);
                        let t0 = io.now();
                        let r = cache.get(&k).await;
                        spans.push((t0, io.now(), k, 0));
                        lookups += 1;
                        let src = r.as_ref().ok().and_then(|e| e.as_ref().map(|e| format!("{:?}", e.source())));
                        if debug {
                            evlog.push((t0, io.now(), k, format!("T{t} own get -> {:?} src {src:?}", r.as_ref().map(|e| e.as_ref().map(|e| crate::value::parse(e.value()).ok())))));
                        }
                        match hyb::see(k, r) {
                            Seen::Miss => misses += 1,
                            Seen::Error(_) => {}
                            Seen::Corrupt(why) => problems.push(("lookup:foreign-or-corrupt".into(), format!("owner {t}: get({k}) returned bytes that are not a value of this key: {why}"))),
                            Seen::Hit(s) => {
                                judged += 1;
                                if src.as_deref() == Some("Disk") { disk += 1 } else { mem += 1 }
                                match latest.get(&k).copied().flatten() {
                                    Some(want) if want == s => {}
                                    Some(want) => {
                                        // known mechanism: the hybrid insert publishes to memory first and hands the entry to the
                                        // disk tier afterwards; if the entry is evicted from memory in between, it is in neither tier
                                        // and a lookup falls through to (or joins a load of) the older disk copy
                                        let (_, t_ret) = insert_span.get(&k).copied().unwrap_or((0, 0));
                                        let limbo = hlog.leaves.lock().iter().any(|l| l.stamp == Some(want) && l.reason == crate::mem::Reason::Evict && l.t < t_ret);
                                        let sig = if limbo { "lookup:stale-old:newest-version-evicted-from-memory-before-its-insert-returned" } else { "lookup:stale-old" };
                                        problems.push((sig.into(), format!("owner {t} (only writer of key {k}): get returned {s:?} from {src:?} but its most recent completed insert is {want:?}{}", if limbo { " (that version was evicted from memory before insert() had handed it to the disk tier and returned)" } else { "" })))
                                    }
                                    None => {
                                        let (r0, r1) = remove_span.get(&k).copied().unwrap_or((0, 0));
                                        // classified after all tasks have finished (needs the other tasks' lookups)
                                        problems.push((format!("lookup:stale-removed@{k}@{r0}@{r1}"), format!("owner {t} (only writer of key {k}): get returned {s:?} from {src:?} although its most recent completed update is a remove (remove() spanned t={r0}..{r1})")))
                                    }
                                }
                            }
                        }
                    }
                    85..=94 => {
                        let k = rng.below(keys);
                        let t0 = io.now();
                        let r = cache.get(&k).await;
                        spans.push((t0, io.now(), k, 0));
                        lookups += 1;
                        if debug {
                            evlog.push((t0, io.now(), k, format!("T{t} foreign get -> {:?} src {:?}", r.as_ref().map(|e| e.as_ref().map(|e| crate::value::parse(e.value()).ok())), r.as_ref().ok().and_then(|e| e.as_ref().map(|e| e.source())))));
                        }
                        match hyb::see(k, r) {
                            Seen::Corrupt(why) => problems.push(("lookup:foreign-or-corrupt".into(), format!("task {t}: get({k}) returned bytes that are not a value of this key: {why}"))),
                            Seen::Hit(s) if s.key != k => problems.push(("lookup:foreign".into(), format!("task {t}: get({k}) returned {s:?}"))),
                            Seen::Hit(_) => {}
                            Seen::Miss => misses += 1,
                            Seen::Error(_) => {}
                        }
                    }
                    95..=96 if gates && t == 0 => {
                        held_bytes.store(0, Ordering::SeqCst);
                        io.hold_writes();
                        tokio::time::sleep(Duration::from_millis(1 + rng.below(4))).await;
                        let mut held = io.held_writes();
                        rng.shuffle(&mut held);
                        for s in held {
                            io.release_write(s);
                        }
                        io.release_writes();
                    }
                    97 => {
                        if debug {
                            evlog.push((io.now(), io.now(), u64::MAX, format!("T{t} evict_all")));
                        }
                        cache.memory().evict_all()
                    }
                    _ => tokio::task::yield_now().await,
                }
                if problems.len() > 3 {
                    break;
                }
            }
            (problems, lookups, judged, disk, mem, misses, evlog, spans)
        }));
    }
    let all = bounded(&io, "the owner tasks", async {
        let mut rs = vec![];
        for h in handles {
            rs.push(h.await);
        }
        rs
    })
    .await;
    io.release_writes();
    io.release_reads();
    let mut stalled = false;
    let mut all_events: Vec<(u64, u64, u64, String)> = vec![];
    let mut all_spans: Vec<(u64, u64, u64, u8)> = vec![];
    let mut raw_problems: Vec<(String, String)> = vec![];
    match all {
        Ok(rs) => {
            for r in rs {
                match r {
                    Ok((p, l, j, d, m, mi, ev, sp)) => {
                        all_events.extend(ev);
                        all_spans.extend(sp);
                        raw_problems.extend(p.into_iter().take(3));
                        out.lookups += l;
                        out.judged += j;
                        out.hits_disk += d;
                        out.hits_mem += m;
                        out.misses += mi;
                        out.ops += per as u64;
                    }
                    Err(e) => out.problems.push((
                        format!("panic:{}", if e.is_panic() { crate::normalise(&crate::panic_message(&e.into_panic())) } else { "cancelled".into() }),
                        "an owner task panicked".into(),
                    )),
                }
            }
        }
        Err((true, why)) => {
            out.problems.push(("stall".into(), why));
            stalled = true;
        }
        Err((false, why)) => {
            out.inconclusive.push(why);
            stalled = true;
        }
    }
    // classify: a removed value that comes back because a disk load of the key (any task's lookup) was in flight across
    // the remove is the known "remove does not cancel an in-flight load" mechanism; anything else stays unexplained
    for (sig, detail) in raw_problems {
        if let Some(rest) = sig.strip_prefix("lookup:stale-removed@") {
            let f: Vec<u64> = rest.split('@').filter_map(|x| x.parse().ok()).collect();
            let (k, r0, r1) = (f[0], f[1], f[2]);
            let across = all_spans.iter().any(|(a, b, key, kind)| *key == k && *kind == 0 && *a < r1 && *b > r0);
            if across {
                out.problems.push(("lookup:stale-removed:disk-load-in-flight-across-the-remove".into(), format!("{detail}; a lookup of the key by another task overlapped that remove")));
            } else {
                out.problems.push(("lookup:stale-removed".into(), detail));
            }
        } else {
            out.problems.push((sig, detail));
        }
    }
    if !stalled {
        match bounded(&io, "wait()", cache.storage().wait()).await {
            Ok(()) => {}
            Err((true, why)) => {
                out.problems.push(("stall:wait".into(), why));
                stalled = true;
            }
            Err((false, why)) => {
                out.inconclusive.push(why);
                stalled = true;
            }
        }
    }
    if !stalled {
        match bounded(&io, "close()", cache.close()).await {
            Ok(_) => {}
            Err((true, why)) => {
                out.problems.push(("stall:close".into(), why));
                stalled = true;
            }
            Err((false, why)) => out.inconclusive.push(why),
        }
    }
    if std::env::var("VH_DEBUG").is_ok() && !out.problems.is_empty() {
        all_events.sort();
        eprintln!("PROBLEMS {:?}", out.problems);
        for (a, b, k, what) in &all_events {
            eprintln!("  [{a}..{b}] key {k}: {what}");
        }
        for w in io.snapshot_writes().iter() {
            eprintln!("   #{} part {} off {} len {} t {}..{} clean={} entries(hash,seq)={:?}", w.seq, w.partition, w.offset, w.len, w.t_issue, w.t_complete, is_clean_write(&cfg, w), entries_in_write(w));
        }
    }
    finish_log(plan, &io, &mut out);
    if stalled {
        std::mem::forget(cache);
    }
    out
}

pub fn run(seed: u64, tier: &str, shard: usize, nshards: usize) -> ShardResult {
    let mut res = ShardResult::new("c09", seed);
    let mut rt = tokio::runtime::Builder::new_multi_thread().worker_threads(4).enable_all().build().unwrap();
    let total = if tier == "thorough" { 960 } else { 128 };
    let mut rng = Rng::derive(seed, 0xC09_000 + shard as u64);
    for i in 0..(total / nshards.max(1)).max(2) {
        if i % 10 == 9 {
            std::mem::replace(&mut rt, tokio::runtime::Builder::new_multi_thread().worker_threads(4).enable_all().build().unwrap()).shutdown_background();
        }
        let conc = i % 3 == 2;
        let burst = i % 8 == 3;
        let plan = if burst { crate::c09burst::gen_plan(&mut rng) } else { gen_plan(&mut rng, tier, conc) };
        let plan = Plan { burst, ..plan };
        crate::progress(&json!({"check":"c09","plan":plan}));
        let o = rt.block_on(async {
            if burst {
                crate::c09burst::run_burst(&plan).await
            } else if conc {
                run_owners(&plan).await
            } else {
                run_churn(&plan).await
            }
        });
        absorb(&mut res, &plan, o);
    }
    // a wedged store (stall verdict) may keep tasks that never finish: do not wait for them at teardown
    rt.shutdown_background();
    res
}

fn absorb(res: &mut ShardResult, plan: &Plan, o: Outcome) {
    res.evaluations += 1;
    let mode = if plan.burst { "burst" } else if plan.owners > 0 { "owners" } else { "churn" };
    res.count(&format!("runs_{mode}"), 1);
    res.count("ops", o.ops);
    res.count("lookups", o.lookups);
    res.count("lookup_hits_judged_exactly", o.judged);
    res.count("hits_from_disk", o.hits_disk);
    res.count("hits_from_memory", o.hits_mem);
    res.count("blocks_cleaned", o.cleans);
    res.count("block_generations", o.generations);
    res.count("gate_releases_in_seeded_order", o.gate_releases);
    res.count("reinsertion_admitted_keys_checked", o.reinsert_checked);
    res.count("reinsertion_admitted_keys_found", o.reinsert_hits);
    res.count("fill_order_generations_checked", o.fifo_pairs);
    res.set_max("max::device_capacities_written_x100", (o.capacities_written * 100.0) as u64);
    res.count(&format!("cfg_flushers_{}", plan.cfg.flushers), 1);
    res.count(&format!("cfg_reclaimers_{}", plan.cfg.reclaimers), 1);
    res.count(&format!("cfg_threshold_{}", plan.cfg.clean_block_threshold), 1);
    res.count(&format!("cfg_reinsert_mod_{}", plan.cfg.reinsert_mod), 1);
    // non-trivial: blocks were reclaimed and reused; distinct by the observed completion / clean order
    if o.cleans >= 2 {
        res.nontrivial_hashes.insert(o.order_hash);
        if res.samples.len() < 2 {
            res.sample(json!({"mode":mode,"cfg":plan.cfg,"keys":plan.keys,"ops":o.ops,"blocks_cleaned":o.cleans,"capacities_written":o.capacities_written,
                "lookups":o.lookups,"hits_from_disk":o.hits_disk,"reinsertion_checked":o.reinsert_checked}));
        }
    }
    for e in o.inconclusive {
        res.inconclusive += 1;
        res.inconclusive_notes.push(e);
    }
    for (sig, detail) in o.problems.into_iter().take(2) {
        res.violate(format!("C09:{sig}:{mode}"), detail, json!({"check":"c09","plan":plan}));
    }
}

pub fn replay(plan: Plan) -> ShardResult {
    let mut res = ShardResult::new("c09-replay", 0);
    let rt = tokio::runtime::Builder::new_multi_thread().worker_threads(4).enable_all().build().unwrap();
    for _ in 0..3 {
        let o = rt.block_on(async {
            if plan.burst {
                crate::c09burst::run_burst(&plan).await
            } else if plan.owners > 0 {
                run_owners(&plan).await
            } else {
                run_churn(&plan).await
            }
        });
        absorb(&mut res, &plan, o);
        if !res.violations.is_empty() {
            break;
        }
    }
    rt.shutdown_background();
    res
}
