//! C09, burst mode: a full device whose blocks hold reinsertion-admitted live entries receives one
//! large flush batch (several blocks of fresh keys, queued behind the flush hold) and has to make
//! room for it: several block writers wait for clean blocks at once while the reclaimer reinserts.
//! Keys are never overwritten in this mode, so the oversized-batch regime of DESIGN.md section 7
//! cannot produce a stale value; what is judged is progress (wait()/close() return), the write-log
//! discipline, and that admitted entries survive (lookups only at the final quiescent point).
use std::sync::Arc;

use serde_json::json;

use crate::{
    c09::{check_generations, Outcome, Plan},
    hscript::{Exec, HOp, Loc},
    hyb::{Comp, HCfg, Policy, Seen, PAGE},
    io::IoCtl,
    mem::{Algo, AlgoCfg},
    rng::{fnv, Rng},
};

pub fn gen_plan(rng: &mut Rng) -> Plan {
    let mut cfg = HCfg::small(AlgoCfg::default_for(Algo::Fifo));
    cfg.policy = Policy::WriteOnInsertion;
    cfg.flush_on_close = false;
    cfg.tombstone = false;
    cfg.block_size = *rng.pick(&[32 * 1024, 64 * 1024]);
    cfg.flushers = 1 + rng.usize(2);
    cfg.reclaimers = 1 + rng.usize(2);
    cfg.clean_block_threshold = 1;
    cfg.blocks = 2 * (cfg.flushers + 1) + 4 + rng.usize(5);
    cfg.compression = Comp::None;
    cfg.buffer_pool_size = 8 * 1024 * 1024 * cfg.flushers;
    cfg.mem_capacity = 8192;
    cfg.mem_shards = 1;
    // admitted live set = a quarter .. a sixth of the filled device (burst keys are never admitted): reinsertion always has room
    cfg.reinsert_mod = *rng.pick(&[4u64, 5, 6]);
    Plan { cfg, keys: 0, n_ops: 0, no_deletes: true, gates: false, seed: rng.next(), owners: 0, burst: true }
}

async fn bounded<T>(io: &Arc<IoCtl>, what: &str, f: impl std::future::Future<Output = T>) -> Result<T, (bool, String)> {
    crate::c09::bounded_pub(io, what, f).await
}

pub async fn run_burst(plan: &Plan) -> Outcome {
    let cfg = &plan.cfg;
    let mut out = Outcome::default();
    let mut ex = match Exec::new(cfg.clone()).await {
        Ok(e) => e,
        Err(e) => {
            out.inconclusive.push(format!("open: {e}"));
            return out;
        }
    };
    let io = ex.ctl.io.clone();
    let mut rng = Rng::derive(plan.seed, 31);
    let per_block = cfg.block_size / PAGE - 1;
    // fill the device with one-page entries of unique keys (in small acknowledged batches)
    let fill = cfg.blocks * per_block;
    let mut latest = std::collections::BTreeMap::new();
    let mut next_key = 0u64;
    let mut stalled = false;
    for i in 0..fill {
        let o = ex.step(&HOp::Insert { k: next_key, size: 300 + (i % 9) * 300, loc: Loc::Default }).await;
        if let Some(Seen::Hit(s)) = o.seen {
            latest.insert(next_key, s);
        }
        next_key += 1;
        out.ops += 1;
        if i % (per_block / 2).max(2) == 0 {
            if let Err((stall, why)) = bounded(&io, "wait() while filling", ex.cache().storage().wait()).await {
                if stall {
                    out.problems.push(("stall:wait".into(), why));
                } else {
                    out.inconclusive.push(why);
                }
                stalled = true;
                break;
            }
        }
    }
    // bursts: several blocks of fresh keys released as one batch
    let rounds = 2 + rng.usize(3);
    for _ in 0..rounds {
        if stalled {
            break;
        }
        ex.step(&HOp::HoldFlush).await;
        let nblocks = 2 + rng.usize(3);
        for i in 0..nblocks * per_block + rng.usize(per_block) {
            if next_key % cfg.reinsert_mod == 0 {
                next_key += 1;
            }
            let o = ex.step(&HOp::Insert { k: next_key, size: 300 + (i % 9) * 300, loc: Loc::Default }).await;
            if let Some(Seen::Hit(s)) = o.seen {
                latest.insert(next_key, s);
            }
            next_key += 1;
            out.ops += 1;
        }
        ex.ctl.flush_switch.off();
        ex.flush_held = false;
        match bounded(&io, "wait() after the write burst", ex.cache().storage().wait()).await {
            Ok(()) => {}
            Err((true, why)) => {
                out.problems.push(("stall:wait".into(), why));
                stalled = true;
            }
            Err((false, why)) => {
                out.inconclusive.push(why);
                stalled = true;
            }
        }
    }
    if !stalled {
        ex.settle().await;
        // final quiescent point: every admitted key must still read its (only) version; nothing may read a wrong value
        for (k, v) in &latest {
            let admitted = cfg.reinsert_mod != 0 && k % cfg.reinsert_mod == 0;
            if !admitted && rng.chance(3, 4) {
                continue;
            }
            let o = ex.step(&HOp::Get { k: *k }).await;
            out.lookups += 1;
            match &o.seen {
                Some(Seen::Hit(s)) if s == v => {
                    out.judged += 1;
                    if admitted {
                        out.reinsert_hits += 1;
                    }
                }
                Some(Seen::Miss) if !admitted => {}
                Some(Seen::Miss) => out.problems.push((
                    "reinsertion-admitted-entry-lost".into(),
                    format!("key {k}: the reinsertion filter admits it, it was written once and never overwritten or looked up, but after the bursts it reads as a miss"),
                )),
                other => out.problems.push(("lookup:foreign-or-corrupt".into(), format!("key {k}: lookup gave {other:?}, the only version ever written is {v:?}"))),
            }
            if admitted {
                out.reinsert_checked += 1;
            }
            ex.step(&HOp::EvictMem).await;
            if out.problems.len() > 3 {
                break;
            }
        }
        let c = ex.cache.take().unwrap();
        match bounded(&io, "close()", c.close()).await {
            Ok(_) => {}
            Err((true, why)) => out.problems.push(("stall:close".into(), why)),
            Err((false, why)) => out.inconclusive.push(why),
        }
        drop(c);
    }
    let ws = io.snapshot_writes();
    let (problems, gens) = check_generations(cfg, &ws, false);
    for (s, d) in problems.into_iter().take(2) {
        out.problems.push((format!("write-log:{s}"), d));
    }
    out.cleans = ws.iter().filter(|w| w.partition >= cfg.tombstone as u32 && w.offset == 0 && w.len == PAGE && w.data.iter().all(|b| *b == 0)).count() as u64;
    out.generations = gens.len() as u64;
    out.bytes_written = ws.iter().map(|w| w.len as u64).sum();
    out.capacities_written = out.bytes_written as f64 / (cfg.blocks * cfg.block_size) as f64;
    let mut order: Vec<(u64, u64)> = ws.iter().map(|w| (w.t_complete, w.seq)).collect();
    order.sort();
    out.order_hash = fnv(format!("{:?}", order.iter().map(|(_, s)| *s).collect::<Vec<_>>()).as_bytes());
    if stalled {
        std::mem::forget(ex);
    } else {
        ex.finish().await;
    }
    let _ = json!({});
    out
}
