//! C10: with the tombstone log on, a flushed delete survives any number of restarts.
use std::collections::{BTreeMap, BTreeSet};

use foyer::RecoverMode;
use serde::{Deserialize, Serialize};
use serde_json::json;

use crate::{
    hscript::{Exec, HOp, Loc},
    hyb::{self, HCfg, Policy, Seen, PAGE},
    mem::{Algo, AlgoCfg},
    out::ShardResult,
    rng::{fnv, Rng},
    value::Stamp,
};

#[derive(Clone, Debug, Serialize, Deserialize)]
pub struct Cycle {
    pub deletes: Vec<u64>,
    pub reinserts: Vec<u64>,
    /// reopen a copy of the device directory taken after wait() instead of closing gracefully
    pub crash: bool,
}

#[derive(Clone, Debug, Serialize, Deserialize)]
pub struct Plan {
    pub cfg: HCfg,
    pub keys: u64,
    pub cycles: Vec<Cycle>,
}

fn gen_plan(rng: &mut Rng, tier: &str) -> Plan {
    let mut cfg = HCfg::small(AlgoCfg::default_for(Algo::Fifo));
    cfg.policy = Policy::WriteOnInsertion;
    cfg.tombstone = true;
    cfg.mem_capacity = 4096;
    cfg.block_size = 256 * 1024;
    cfg.flushers = 1 + rng.usize(2);
    cfg.buffer_pool_size = 8 * 1024 * 1024 * cfg.flushers;
    let keys = if tier == "thorough" { 600 + rng.below(2400) } else { 300 + rng.below(700) };
    // device: twice the data so that nothing is reclaimed
    cfg.blocks = ((keys as usize * 2 * PAGE) / cfg.block_size + 4).max(8);
    let capacity_slots = cfg.device_capacity() / PAGE;
    let ncycles = 1 + rng.usize(if tier == "thorough" { 5 } else { 4 });
    let mut present: BTreeSet<u64> = (0..keys).collect();
    let mut deleted: BTreeSet<u64> = BTreeSet::new();
    let mut logged = 0usize;
    let mut cycles = vec![];
    let mut prev_tail: Vec<u64> = vec![];
    for _ in 0..ncycles {
        let want = *rng.pick(&[1usize, 3, 100, 255, 256, 257, 300, 511, 513, 700]);
        let room = capacity_slots.saturating_sub(logged + 2);
        let n = want.min(present.len()).min(room);
        let mut pool: Vec<u64> = present.iter().copied().collect();
        rng.shuffle(&mut pool);
        let deletes: Vec<u64> = pool.into_iter().take(n).collect();
        for k in &deletes {
            present.remove(k);
            deleted.insert(*k);
        }
        logged += deletes.len();
        let mut dp: Vec<u64> = deleted.iter().copied().collect();
        rng.shuffle(&mut dp);
        // prefer the keys whose deletes were the newest ones of the previous cycle (they carry the highest tombstone
        // sequences: a re-insert after the restart must still win against them at the restart after that)
        let mut reinserts: Vec<u64> = prev_tail.iter().copied().filter(|k| deleted.contains(k)).collect();
        reinserts.extend(dp.into_iter().take(rng.usize(6)));
        reinserts.sort();
        reinserts.dedup();
        prev_tail = deletes.iter().rev().take(3).copied().collect();
        for k in &reinserts {
            deleted.remove(k);
            present.insert(*k);
        }
        cycles.push(Cycle { deletes, reinserts, crash: rng.chance(1, 3) });
    }
    Plan { cfg, keys, cycles }
}

pub struct Outcome {
    pub problems: Vec<(String, String)>,
    pub deletes: usize,
    pub log_pages_used: usize,
    pub reopens: usize,
}

async fn run_plan(plan: &Plan) -> Result<Outcome, String> {
    let cfg = &plan.cfg;
    let mut ex = Exec::new(cfg.clone()).await.map_err(|e| format!("open: {e}"))?;
    let mut problems = vec![];
    let mut latest: BTreeMap<u64, Option<Stamp>> = BTreeMap::new();
    for k in 0..plan.keys {
        let o = ex.step(&HOp::Insert { k, size: 64, loc: Loc::Default }).await;
        if let Some(Seen::Hit(s)) = o.seen {
            latest.insert(k, Some(s));
        }
    }
    ex.step(&HOp::Wait).await;
    let mut total_deletes = 0usize;
    let mut reopens = 0usize;
    let mut reinserted_first: BTreeSet<u64> = BTreeSet::new();
    let mut last_removed: Option<u64> = None;
    for (ci, cy) in plan.cycles.iter().enumerate() {
        // the very first write after a restart re-inserts the key whose delete was the last one before the restart (it holds
        // the highest tombstone sequence in the log): the re-insert must still win against that tombstone at the next restart
        if ci > 0 {
            if let Some(k) = last_removed.take() {
                if latest.get(&k) == Some(&None) && !cy.deletes.contains(&k) {
                    let o = ex.step(&HOp::Insert { k, size: 64, loc: Loc::Default }).await;
                    if let Some(Seen::Hit(s)) = o.seen {
                        latest.insert(k, Some(s));
                        reinserted_first.insert(k);
                    }
                }
            }
        }
        // re-inserts of keys deleted in earlier cycles come first: they are the first sequence numbers drawn after the restart
        for k in cy.reinserts.iter().filter(|k| !cy.deletes.contains(k)) {
            let o = ex.step(&HOp::Insert { k: *k, size: 64, loc: Loc::Default }).await;
            if let Some(Seen::Hit(s)) = o.seen {
                latest.insert(*k, Some(s));
            }
        }
        ex.step(&HOp::Wait).await;
        for k in &cy.deletes {
            ex.step(&HOp::Remove { k: *k }).await;
            latest.insert(*k, None);
            last_removed = Some(*k);
        }
        total_deletes += cy.deletes.len();
        // a few keys are (re-)inserted and removed again back to back: the remove arrives while the insert is still queued
        for (j, k) in cy.deletes.iter().take(3).enumerate() {
            if (ci + j) % 2 == 0 {
                ex.step(&HOp::Insert { k: *k, size: 64, loc: Loc::Default }).await;
                ex.step(&HOp::Remove { k: *k }).await;
                latest.insert(*k, None);
                last_removed = Some(*k);
            }
        }
        ex.step(&HOp::Wait).await;
        for k in cy.reinserts.iter().filter(|k| cy.deletes.contains(k)) {
            let o = ex.step(&HOp::Insert { k: *k, size: 64, loc: Loc::Default }).await;
            if let Some(Seen::Hit(s)) = o.seen {
                latest.insert(*k, Some(s));
            }
        }
        ex.step(&HOp::Wait).await;
        if cy.crash {
            // crash image: the directory as it is after the acknowledged flush, without close
            let copy = hyb::DirGuard(hyb::scratch_dir("c10crash"));
            for e in std::fs::read_dir(&ex.dir.0).map_err(|e| e.to_string())? {
                let e = e.map_err(|e| e.to_string())?;
                std::fs::copy(e.path(), copy.0.join(e.file_name())).map_err(|e| e.to_string())?;
            }
            let old = ex.cache.take().unwrap();
            let _ = old.close().await;
            drop(old);
            ex.dir = copy;
            ex.reopen_count += 1;
            match hyb::open(cfg, &ex.dir.0, &ex.ctl, RecoverMode::Quiet).await {
                Ok(c) => ex.cache = Some(c),
                Err(e) => {
                    problems.push(("reopen-failed".to_string(), format!("cycle {ci}: {e}")));
                    break;
                }
            }
        } else {
            let o = ex.step(&HOp::CloseReopen).await;
            if let Some(Seen::Error(e)) = o.seen {
                problems.push(("reopen-failed".to_string(), format!("cycle {ci}: {e}")));
                break;
            }
        }
        reopens += 1;
        // judge every key after this reopen
        let mut resurrected = vec![];
        let mut hidden = vec![];
        let mut wrong = vec![];
        for (k, want) in &latest {
            let o = ex.step(&HOp::Get { k: *k }).await;
            match (&o.seen, want) {
                (Some(Seen::Miss), _) if want.is_none() => {}
                (Some(Seen::Hit(s)), None) => resurrected.push((*k, *s)),
                (Some(Seen::Hit(s)), Some(w)) if s == w => {}
                (Some(Seen::Hit(s)), Some(w)) => wrong.push((*k, *s, *w)),
                (Some(Seen::Miss), Some(_)) => hidden.push(*k),
                (other, _) => wrong.push((*k, Stamp { key: *k, writer: 0, version: 0 }, Stamp { key: 0, writer: 0, version: format!("{other:?}").len() as u32 })),
            }
        }
        if !resurrected.is_empty() {
            problems.push((
                format!("deleted-key-readable-after-reopen:reopen>={}", if reopens >= 2 { 2 } else { 1 }),
                format!("after reopen #{reopens} ({} deletes logged so far, {} in this cycle) {} deleted keys are readable again, e.g. {:?}", total_deletes, cy.deletes.len(), resurrected.len(), &resurrected[..resurrected.len().min(3)]),
            ));
        }
        let reinserted_hidden: Vec<u64> = hidden.iter().copied().filter(|k| reinserted_first.contains(k) || plan.cycles[..=ci].iter().any(|c| c.reinserts.contains(k))).collect();
        if !reinserted_hidden.is_empty() {
            problems.push((
                "reinserted-key-hidden-by-old-tombstone".to_string(),
                format!("after reopen #{reopens}: re-inserted keys {:?} read as absent", &reinserted_hidden[..reinserted_hidden.len().min(5)]),
            ));
        }
        if !wrong.is_empty() {
            problems.push(("wrong-version-after-reopen".to_string(), format!("{:?}", &wrong[..wrong.len().min(3)])));
        }
        if !problems.is_empty() {
            break;
        }
    }
    ex.finish().await;
    Ok(Outcome { problems, deletes: total_deletes, log_pages_used: total_deletes.div_ceil(256), reopens })
}

pub fn run(seed: u64, tier: &str, shard: usize, nshards: usize) -> ShardResult {
    let mut res = ShardResult::new("c10", seed);
    let mut rt = tokio::runtime::Builder::new_multi_thread().worker_threads(3).enable_all().build().unwrap();
    let total = if tier == "thorough" { 640 } else { 96 };
    let mut rng = Rng::derive(seed, 0xC10_000 + shard as u64);
    for i in 0..total / nshards.max(1) {
        // a closed HybridCache keeps its partition files open for as long as its runtime lives: recycle the runtime regularly
        if i % 5 == 4 {
            std::mem::replace(&mut rt, tokio::runtime::Builder::new_multi_thread().worker_threads(3).enable_all().build().unwrap()).shutdown_background();
        }
        let plan = gen_plan(&mut rng, tier);
        let r = rt.block_on(async { tokio::time::timeout(std::time::Duration::from_secs(600), run_plan(&plan)).await });
        res.evaluations += 1;
        match r {
            Err(_) => {
                res.inconclusive += 1;
                res.inconclusive_notes.push("plan did not finish within 600s".into());
            }
            Ok(Err(e)) => {
                res.inconclusive += 1;
                res.inconclusive_notes.push(e);
            }
            Ok(Ok(o)) => {
                res.count("deletes_flushed", o.deletes as u64);
                res.count("reopens", o.reopens as u64);
                res.set_max("max::log_pages_used", o.log_pages_used as u64);
                if o.log_pages_used >= 2 {
                    res.count("plans_crossing_a_log_page", 1);
                }
                if o.deletes > 0 && o.reopens > 0 {
                    res.nontrivial_hashes.insert(fnv(format!("{:?}", plan).as_bytes()));
                    if res.samples.len() < 2 {
                        res.sample(json!({"keys":plan.keys,"cycles":plan.cycles.iter().map(|c| json!({"deletes":c.deletes.len(),"reinserts":c.reinserts.len(),"crash":c.crash})).collect::<Vec<_>>()}));
                    }
                }
                for (sig, detail) in o.problems.iter().take(1) {
                    res.violate(format!("C10:{sig}"), detail.clone(), json!({"check":"c10","plan":plan}));
                }
            }
        }
    }
    res
}
