//! C12: disk writes happen exactly when policy and placement advice say so.  After every step the
//! store is drained (wait) and the device image is read independently: the multiset of entry
//! copies on disk tells which versions were (re)written by that step.
use std::collections::BTreeMap;

use serde_json::json;

use crate::{
    hscript::{Exec, HOp, Loc},
    hyb::{HCfg, Policy, Seen},
    image::{self, Payload},
    mem::{Algo, AlgoCfg, ALGOS},
    out::ShardResult,
    rng::{fnv, Rng},
    value::Stamp,
};

fn disk_copies(cfg: &HCfg, dir: &std::path::Path) -> BTreeMap<Stamp, usize> {
    let img = image::parse_image(cfg, dir);
    let mut m = BTreeMap::new();
    for e in img.entries {
        if let Payload::Value { stamp, .. } = e.payload {
            *m.entry(stamp).or_insert(0) += 1;
        }
    }
    m
}

/// sequences under which each version is present on the device (a rewrite shows up as a new sequence even if the old
/// copy was reclaimed in the same step)
fn disk_sequences(cfg: &HCfg, dir: &std::path::Path) -> BTreeMap<Stamp, std::collections::BTreeSet<u64>> {
    let img = image::parse_image(cfg, dir);
    let mut m: BTreeMap<Stamp, std::collections::BTreeSet<u64>> = BTreeMap::new();
    for e in img.entries {
        if let Payload::Value { stamp, .. } = e.payload {
            m.entry(stamp).or_default().insert(e.sequence);
        }
    }
    m
}

#[derive(Clone, Debug)]
struct Ver {
    stamp: Stamp,
    loc: Loc,
    admitted: bool,
    /// came from disk (young): not rewritten on eviction
    from_disk: bool,
}

pub struct Outcome {
    pub problems: Vec<(String, String)>,
    pub steps: usize,
    pub copies_written: usize,
    pub classes: BTreeMap<String, u64>,
}

async fn run_script(cfg: &HCfg, script: &[HOp], locs: &BTreeMap<u64, Loc>) -> Result<Outcome, String> {
    let mut ex = Exec::new(cfg.clone()).await.map_err(|e| format!("open: {e}"))?;
    let mut problems = vec![];
    let mut classes: BTreeMap<String, u64> = BTreeMap::new();
    // what memory holds according to the script (key -> version); kept exact by using a big memory and explicit evictions
    let mut mem: BTreeMap<u64, Ver> = BTreeMap::new();
    let mut before = disk_copies(cfg, &ex.dir.0);
    let mut total_new = 0usize;
    let woi = cfg.policy == Policy::WriteOnInsertion;
    // rejected or throttled by the admission filter = not admitted
    let admitted = |k: u64| {
        let h = k / cfg.hash_div.max(1);
        !(cfg.admit_reject_mod != 0 && h % cfg.admit_reject_mod == 1) && !(cfg.admit_throttle_mod != 0 && h % cfg.admit_throttle_mod == 2)
    };
    for (i, op) in script.iter().enumerate() {
        let o = ex.step(op).await;
        if !matches!(op, HOp::Wait | HOp::CloseReopen) {
            ex.step(&HOp::Wait).await;
        }
        if ex.cache.is_none() {
            break;
        }
        let after = disk_copies(cfg, &ex.dir.0);
        let mut new: BTreeMap<Stamp, usize> = BTreeMap::new();
        for (s, n) in &after {
            let b = before.get(s).copied().unwrap_or(0);
            if *n > b {
                new.insert(*s, n - b);
            }
        }
        total_new += new.values().sum::<usize>();
        let mut expect: BTreeMap<Stamp, usize> = BTreeMap::new();
        let class;
        match op {
            HOp::Insert { k, loc, .. } => {
                let Some(Seen::Hit(s)) = o.seen else { continue };
                let adm = admitted(*k);
                let thr = cfg.admit_throttle_mod != 0 && (*k / cfg.hash_div.max(1)) % cfg.admit_throttle_mod == 2;
                class = format!("insert:{loc:?}:{}:{}", if woi { "woi" } else { "woe" }, if adm { "admit" } else if thr { "throttled" } else { "reject" });
                let mut to_disk = false;
                match loc {
                    Loc::InMem => {}
                    Loc::OnDisk => to_disk = adm, // disk-only: dropped handle offers it (woe pipe) / enqueued at insert (woi)
                    Loc::Default => to_disk = woi && adm,
                }
                if to_disk {
                    expect.insert(s, 1);
                }
                if *loc == Loc::OnDisk {
                    if o.in_memory_after == Some(true) {
                        problems.push((format!("on-disk-advised-retained-in-memory:{}", if woi { "woi" } else { "woe" }), format!("step {i} {op:?}: memory().contains({k}) is true after the handle was dropped")));
                    }
                    mem.remove(k);
                } else {
                    mem.insert(*k, Ver { stamp: s, loc: *loc, admitted: adm, from_disk: false });
                }
            }
            HOp::Get { k } => {
                class = format!("get:{}", o.source.clone().unwrap_or_else(|| "miss".into()));
                if let (Some(Seen::Hit(s)), Some(src)) = (&o.seen, &o.source) {
                    if src == "Disk" {
                        mem.insert(*k, Ver { stamp: *s, loc: *locs.get(k).unwrap_or(&Loc::Default), admitted: admitted(*k), from_disk: true });
                    }
                }
            }
            HOp::GetOrFetch { k, .. } => {
                class = format!("get_or_fetch:{}:{}", o.source.clone().unwrap_or_else(|| "err".into()), if woi { "woi" } else { "woe" });
                let src = o.source.clone().unwrap_or_default();
                if src != "Outer" && o.origin_ran {
                    problems.push(("origin-ran-on-hit".into(), format!("step {i} {op:?}: served from {src} but the origin future was polled")));
                }
                if let Some(Seen::Hit(s)) = &o.seen {
                    if src == "Outer" {
                        let adm = admitted(*k);
                        if woi && adm {
                            expect.insert(*s, 1);
                        }
                        mem.insert(*k, Ver { stamp: *s, loc: Loc::Default, admitted: adm, from_disk: false });
                    } else if src == "Disk" {
                        mem.insert(*k, Ver { stamp: *s, loc: Loc::Default, admitted: admitted(*k), from_disk: true });
                    }
                }
            }
            HOp::EvictMem | HOp::ShrinkMem => {
                class = format!("{}:{}{}", if matches!(op, HOp::ShrinkMem) { "resize-evict" } else { "evict" }, if woi { "woi" } else { "woe" }, if cfg.no_listener { ":no-listener" } else { "" });
                if !woi {
                    for v in mem.values() {
                        if v.loc != Loc::InMem && v.admitted && !v.from_disk {
                            expect.insert(v.stamp, 1);
                        }
                    }
                }
                mem.clear();
            }
            HOp::Remove { k } => {
                class = "remove".into();
                mem.remove(k);
            }
            HOp::CloseReopen => {
                class = format!("close:{}:flush_on_close={}", if woi { "woi" } else { "woe" }, cfg.flush_on_close);
                if cfg.flush_on_close && !woi {
                    for v in mem.values() {
                        if v.loc != Loc::InMem && v.admitted && !v.from_disk {
                            expect.insert(v.stamp, 1);
                        }
                    }
                }
                mem.clear();
            }
            _ => {
                class = "other".into();
            }
        }
        *classes.entry(class.clone()).or_insert(0) += 1;
        if new != expect {
            let extra: Vec<_> = new.iter().filter(|(s, n)| expect.get(s).copied().unwrap_or(0) < **n).map(|(s, n)| (*s, *n)).collect();
            let missing: Vec<_> = expect.iter().filter(|(s, n)| new.get(s).copied().unwrap_or(0) < **n).map(|(s, _)| *s).collect();
            let sig = if !extra.is_empty() { format!("unexpected-disk-write:{class}") } else { format!("missing-disk-write:{class}") };
            problems.push((sig, format!("step {i} {op:?}: copies newly on disk {new:?}, expected {expect:?} (extra {extra:?}, missing {missing:?})")));
        }
        before = after;
        if !problems.is_empty() {
            break;
        }
    }
    let steps = script.len();
    ex.finish().await;
    Ok(Outcome { problems, steps, copies_written: total_new, classes })
}

/// Probation family: a device of 24 small blocks is filled until blocks are reclaimed, so that the FIFO picker has
/// blocks "marked for imminent reclaim" (probation).  Disk hits on such blocks and on ordinary blocks: a hit itself
/// writes nothing and does not run the origin; under write-on-eviction a later eviction rewrites the entry exactly
/// when its block was on probation at load time, under write-on-insertion never.
async fn run_probation(rng: &mut Rng, policy: Policy) -> Result<Outcome, String> {
    let mut cfg = HCfg::small(AlgoCfg::default_for(Algo::Fifo));
    cfg.policy = policy;
    cfg.flush_on_close = false;
    cfg.mem_capacity = 1 << 20;
    cfg.block_size = 16 * 1024;
    cfg.blocks = 24 + rng.usize(8);
    cfg.flushers = 1;
    cfg.clean_block_threshold = 1;
    let woi = policy == Policy::WriteOnInsertion;
    let per_block = cfg.block_size / crate::hyb::PAGE - 1;
    let n = cfg.blocks * per_block + 6 + rng.usize(cfg.blocks * per_block);
    let mut ex = Exec::new(cfg.clone()).await.map_err(|e| format!("open: {e}"))?;
    let mut problems = vec![];
    let mut classes: BTreeMap<String, u64> = BTreeMap::new();
    for i in 0..n as u64 {
        ex.step(&HOp::Insert { k: i, size: 500 + (i as usize % 7) * 300, loc: Loc::Default }).await;
        if i % 6 == 5 {
            if !woi {
                ex.step(&HOp::EvictMem).await;
            }
            ex.step(&HOp::Wait).await;
        }
    }
    ex.step(&HOp::EvictMem).await;
    ex.step(&HOp::Wait).await;
    // classify what the disk tier would hand out for every key
    let mut old = vec![];
    let mut young = vec![];
    for k in 0..n as u64 {
        if let Ok(foyer::Load::Entry { populated, .. }) = ex.cache().storage().load(&k).await {
            match populated.age {
                foyer::Age::Old => old.push(k),
                foyer::Age::Young => young.push(k),
                _ => {}
            }
        }
    }
    *classes.entry(format!("probation_keys_seen:{}", if woi { "woi" } else { "woe" })).or_insert(0) += old.len() as u64;
    // only the blocks the default FIFO picker has marked for imminent reclaim (a tenth of the device) may report their entries
    // as loaded from a block on probation; a block that was reclaimed and reused starts a new life without the mark
    let probation_blocks = (cfg.blocks as f64 * 0.1).floor() as usize;
    if old.len() > probation_blocks * per_block {
        problems.push((
            format!("too-many-entries-loaded-as-about-to-be-reclaimed:{}", if woi { "woi" } else { "woe" }),
            format!("{} keys load with the imminent-reclaim mark (e.g. {:?}) on a device of {} blocks x {} entries where at most {} blocks can be marked", old.len(), &old[..old.len().min(6)], cfg.blocks, per_block, probation_blocks),
        ));
    }
    let mut total_new = 0usize;
    let picks: Vec<(u64, bool)> = old.iter().take(4).map(|k| (*k, true)).chain(young.iter().rev().take(3).map(|k| (*k, false))).collect();
    let mut seen_seqs = disk_sequences(&cfg, &ex.dir.0);
    for (k, was_old) in picks {
        let op = if rng.chance(1, 2) { HOp::GetOrFetch { k, size: 100 } } else { HOp::Get { k } };
        let o = ex.step(&op).await;
        ex.step(&HOp::Wait).await;
        let after = disk_sequences(&cfg, &ex.dir.0);
        let class = format!("hit-on-{}-block:{}", if was_old { "probation" } else { "ordinary" }, if woi { "woi" } else { "woe" });
        *classes.entry(class.clone()).or_insert(0) += 1;
        let Some(Seen::Hit(s)) = o.seen else {
            // reclaimed meanwhile: nothing to judge
            continue;
        };
        if o.source.as_deref() != Some("Disk") {
            continue;
        }
        if o.origin_ran {
            problems.push(("origin-ran-on-hit".into(), format!("{op:?}: served from disk but the origin future was polled")));
        }
        // any copy under a sequence never seen before was written by this step
        let fresh = |now: &BTreeMap<Stamp, std::collections::BTreeSet<u64>>, seen: &BTreeMap<Stamp, std::collections::BTreeSet<u64>>| -> Vec<(Stamp, u64)> {
            now.iter().flat_map(|(st, qs)| qs.iter().filter(|q| !seen.get(st).map(|x| x.contains(q)).unwrap_or(false)).map(|q| (*st, *q)).collect::<Vec<_>>()).collect()
        };
        let grew = fresh(&after, &seen_seqs);
        for (st, q) in &grew {
            seen_seqs.entry(*st).or_default().insert(*q);
        }
        if !grew.is_empty() {
            problems.push((format!("unexpected-disk-write:{class}"), format!("{op:?} was a disk hit (block on probation at load time: {was_old}) but entry copies {grew:?} (version, sequence) newly appeared on the device")));
            break;
        }
        // the loaded entry leaves memory again
        ex.step(&HOp::EvictMem).await;
        ex.step(&HOp::Wait).await;
        let after2 = disk_sequences(&cfg, &ex.dir.0);
        let grew2 = fresh(&after2, &seen_seqs);
        for (st, q) in &grew2 {
            seen_seqs.entry(*st).or_default().insert(*q);
        }
        let rewritten = grew2.iter().any(|(st, _)| *st == s);
        let expect_rewrite = !woi && was_old;
        total_new += grew2.len();
        if rewritten && !expect_rewrite {
            problems.push((format!("unexpected-disk-write:evict-after-{class}"), format!("key {k}: evicting the entry loaded from an {} block wrote it again ({grew2:?})", if was_old { "on-probation" } else { "ordinary" })));
            break;
        }
        if !rewritten && expect_rewrite {
            problems.push((format!("missing-disk-write:evict-after-{class}"), format!("key {k}: the entry was loaded from a block marked for imminent reclaim, write-on-eviction must rewrite it when it leaves memory, but no copy under a new sequence appeared")));
            break;
        }
    }
    ex.finish().await;
    Ok(Outcome { problems, steps: n, copies_written: total_new + old.len(), classes })
}

fn gen_case(rng: &mut Rng, i: usize) -> (HCfg, Vec<HOp>, BTreeMap<u64, Loc>) {
    let mut cfg = HCfg::small(AlgoCfg::default_for(ALGOS[i % 5]));
    cfg.policy = if rng.chance(1, 2) { Policy::WriteOnEviction } else { Policy::WriteOnInsertion };
    cfg.flush_on_close = rng.chance(2, 3);
    cfg.mem_capacity = 1 << 20; // nothing is evicted unless the script says so
    cfg.block_size = 64 * 1024;
    cfg.blocks = 8; // < 10 blocks: no block can be in probation
    cfg.admit_reject_mod = if rng.chance(1, 3) { 3 } else { 0 };
    cfg.admit_throttle_mod = if rng.chance(1, 3) { 4 } else { 0 };
    cfg.tombstone = rng.chance(1, 2);
    cfg.no_listener = rng.chance(1, 3);
    let keys: Vec<u64> = (0..5).collect();
    let mut locs = BTreeMap::new();
    for k in &keys {
        locs.insert(*k, *rng.pick(&[Loc::Default, Loc::Default, Loc::InMem, Loc::OnDisk]));
    }
    let n = 6 + rng.usize(14);
    let mut script = vec![];
    for _ in 0..n {
        let k = *rng.pick(&keys);
        let loc = locs[&k];
        script.push(match rng.below(100) {
            0..=34 => HOp::Insert { k, size: 100 + rng.usize(3000), loc },
            35..=54 => HOp::Get { k },
            55..=69 => {
                if loc == Loc::Default {
                    HOp::GetOrFetch { k, size: 100 + rng.usize(2000) }
                } else {
                    HOp::Get { k }
                }
            }
            70..=79 => HOp::EvictMem,
            80..=84 => HOp::ShrinkMem,
            85..=91 => HOp::Remove { k },
            _ => HOp::CloseReopen,
        });
    }
    script.push(HOp::CloseReopen);
    let _ = Algo::Fifo;
    (cfg, script, locs)
}

pub fn run(seed: u64, tier: &str, shard: usize, nshards: usize) -> ShardResult {
    let mut res = ShardResult::new("c12", seed);
    let mut rt = tokio::runtime::Builder::new_multi_thread().worker_threads(3).enable_all().build().unwrap();
    let total = if tier == "thorough" { 32_000 } else { 4_000 };
    let mut rng = Rng::derive(seed, 0xC12_000 + shard as u64);
    // probation family (long): a few per shard
    for j in 0..if tier == "thorough" { 12 } else { 2 } {
        let policy = if j % 2 == 0 { Policy::WriteOnInsertion } else { Policy::WriteOnEviction };
        let r = rt.block_on(async { tokio::time::timeout(std::time::Duration::from_secs(300), run_probation(&mut rng, policy)).await });
        res.evaluations += 1;
        match r {
            Err(_) => {
                res.inconclusive += 1;
                res.inconclusive_notes.push("probation plan did not finish within 300s".into());
            }
            Ok(Err(e)) => {
                res.inconclusive += 1;
                res.inconclusive_notes.push(e);
            }
            Ok(Ok(o)) => {
                res.count("probation_plans", 1);
                for (k, v) in &o.classes {
                    res.count(&format!("class_{k}"), *v);
                }
                for (sig, detail) in o.problems.iter().take(1) {
                    res.violate(format!("C12:{sig}"), detail.clone(), json!({"check":"c12","family":"probation","policy":format!("{policy:?}")}));
                }
            }
        }
    }
    for i in 0..total / nshards.max(1) {
        // a closed HybridCache keeps its partition files open for as long as its runtime lives: recycle the runtime regularly
        if i % 25 == 24 {
            std::mem::replace(&mut rt, tokio::runtime::Builder::new_multi_thread().worker_threads(3).enable_all().build().unwrap()).shutdown_background();
        }
        let (cfg, script, locs) = gen_case(&mut rng, i);
        let r = rt.block_on(async { tokio::time::timeout(std::time::Duration::from_secs(300), run_script(&cfg, &script, &locs)).await });
        res.evaluations += 1;
        match r {
            Err(_) => {
                res.inconclusive += 1;
                res.inconclusive_notes.push("script did not finish within 300s".into());
            }
            Ok(Err(e)) => {
                res.inconclusive += 1;
                res.inconclusive_notes.push(e);
            }
            Ok(Ok(o)) => {
                res.count("steps", o.steps as u64);
                res.count("entry_copies_written", o.copies_written as u64);
                for (k, v) in &o.classes {
                    res.count(&format!("class_{k}"), *v);
                }
                if o.copies_written > 0 {
                    res.nontrivial_hashes.insert(fnv(format!("{cfg:?}{script:?}").as_bytes()));
                    if res.samples.len() < 2 {
                        res.sample(json!({"cfg":cfg,"script":script,"placement":locs,"entry_copies_written":o.copies_written}));
                    }
                }
                for (sig, detail) in o.problems.iter().take(1) {
                    res.violate(format!("C12:{sig}"), detail.clone(), json!({"check":"c12","cfg":cfg,"script":script,"placement":locs}));
                }
            }
        }
    }
    res
}
