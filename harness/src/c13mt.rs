//! C13 / C18, multi-threaded part: several OS threads hammer one in-memory cache (insert, replace,
//! remove, get-and-hold, drop, touch, evict_all, resize, clear, phantom inserts) while a recording
//! listener (with a re-entrant lookup) and a recording pipe observe every leave event and every
//! hand-off to the disk tier.  No linearization is needed: the oracles are conservation laws over
//! unique insert ids, checked after the threads have joined and the cache was cleared and dropped:
//!   * every admitted insert id has exactly one leave event; no event names an unknown id;
//!   * an id that left by capacity eviction was offered to the pipe exactly once, an id that was
//!     replaced / removed / cleared never; a disk-only (filtered) id is offered exactly once;
//!   * the re-entrant lookup inside on_leave never returned the leaving id;
//!   * a Remove / Clear / Replace reason needs an operation of that kind on that key in the history;
//!   * every held handle kept its key / value / weight (re-validated by the holder after each op);
//!   * with no handle outstanding usage() <= capacity after one more fitting insert (C18's leak clause).
use std::{
    collections::{BTreeMap, BTreeSet},
    sync::{
        atomic::{AtomicBool, AtomicU64, Ordering},
        Arc,
    },
};

use foyer::{CacheBuilder, CacheProperties};
use serde::{Deserialize, Serialize};
use serde_json::json;

use crate::{
    mem::{AlgoCfg, DivHasher, Listener, Log, MCache, MEntry, Reason, RecPipe, Tv, ALGOS},
    out::ShardResult,
    rng::{fnv, Rng},
};

#[derive(Clone, Debug, Serialize, Deserialize)]
pub struct Cfg {
    pub algo: AlgoCfg,
    pub capacity: usize,
    pub shards: usize,
    pub threads: usize,
    pub ops: usize,
    pub keys: u64,
    pub seed: u64,
    pub with_global: bool,
}

#[derive(Default)]
struct ThreadOut {
    inserted: Vec<(u64, u64, bool)>, // (id, key, phantom)
    removes: BTreeSet<u64>,
    problems: Vec<(String, String)>,
    ops: u64,
    handle_checks: u64,
}

fn validate(h: &MEntry, id: u64, key: u64, w: usize) -> Option<String> {
    if *h.key() != key || h.value().id != id || h.value().key != key || h.weight() != w {
        return Some(format!(
            "handle of insert id {id} (key {key}, weight {w}) now shows key {} value (key {}, id {}) weight {}",
            h.key(),
            h.value().key,
            h.value().id,
            h.weight()
        ));
    }
    None
}

pub fn one(cfg: &Cfg, res: &mut ShardResult, prop: &str) {
    let log = Arc::new(Log::default());
    let mut cache: MCache = CacheBuilder::new(cfg.capacity)
        .with_shards(cfg.shards)
        .with_eviction_config(cfg.algo.eviction_config())
        .with_hash_builder(DivHasher { div: 1 })
        .with_weighter(|_: &u64, v: &Tv| v.w)
        .with_filter(|_: &u64, v: &Tv| !v.phantom)
        .with_event_listener(Arc::new(Listener(log.clone())))
        .build();
    cache = cache.with_pipe(Arc::new(RecPipe(log.clone())));
    *log.reenter.lock() = Some(cache.clone());
    let cleared = Arc::new(AtomicBool::new(false));
    let next = Arc::new(AtomicU64::new(1));
    let mut handles = vec![];
    for t in 0..cfg.threads {
        let cache = cache.clone();
        let cfgc = cfg.clone();
        let cleared = cleared.clone();
        let next = next.clone();
        handles.push(std::thread::spawn(move || {
            let mut out = ThreadOut::default();
            let mut rng = Rng::derive(cfgc.seed, 1000 + t as u64);
            // (entry, id, key, weight)
            let mut bag: Vec<(MEntry, u64, u64, usize)> = vec![];
            for _ in 0..cfgc.ops {
                out.ops += 1;
                let k = rng.below(cfgc.keys);
                match rng.below(100) {
                    0..=39 => {
                        let id = next.fetch_add(1, Ordering::SeqCst);
                        let w = 1 + rng.usize(2);
                        let phantom = rng.chance(1, 12);
                        // the id is registered before the call: a leave event may arrive before insert() returns
                        out.inserted.push((id, k, phantom));
                        if phantom {
                            // a filtered insert removes the in-memory copy of the key: a Remove reason is then legitimate
                            out.removes.insert(k);
                        }
                        let e = cache.insert_with_properties(k, Tv { key: k, id, w, phantom }, CacheProperties::default());
                        if rng.chance(1, 3) {
                            bag.push((e, id, k, w));
                        }
                    }
                    40..=59 => {
                        if let Some(e) = cache.get(&k) {
                            let (id, kk, w) = (e.value().id, e.value().key, e.weight());
                            if kk != k {
                                out.problems.push(("foreign-entry".into(), format!("get({k}) returned an entry of key {kk}")));
                            }
                            if rng.chance(1, 2) {
                                bag.push((e, id, k, w));
                            }
                        }
                    }
                    60..=69 => {
                        out.removes.insert(k);
                        drop(cache.remove(&k));
                    }
                    70..=84 => {
                        if !bag.is_empty() {
                            let i = rng.usize(bag.len());
                            bag.swap_remove(i);
                        }
                    }
                    85..=88 => {
                        let _ = cache.touch(&k);
                    }
                    89..=90 => {
                        if !bag.is_empty() {
                            let i = rng.usize(bag.len());
                            let c = bag[i].0.clone();
                            let (id, kk, w) = (bag[i].1, bag[i].2, bag[i].3);
                            bag.push((c, id, kk, w));
                        }
                    }
                    91..=92 if cfgc.with_global => cache.evict_all(),
                    93 if cfgc.with_global => {
                        let _ = cache.resize(1 + rng.usize(cfgc.capacity * 2));
                    }
                    94 if cfgc.with_global => {
                        cleared.store(true, Ordering::SeqCst);
                        cache.clear();
                    }
                    _ => std::thread::yield_now(),
                }
                // every held handle stays readable and unchanged
                for (h, id, kk, w) in &bag {
                    out.handle_checks += 1;
                    if let Some(why) = validate(h, *id, *kk, *w) {
                        out.problems.push(("handle-changed".into(), why));
                        break;
                    }
                }
                if out.problems.len() > 2 {
                    break;
                }
            }
            drop(bag);
            out
        }));
    }
    let mut outs = vec![];
    let mut panicked = None;
    for h in handles {
        match h.join() {
            Ok(o) => outs.push(o),
            Err(e) => panicked = Some(crate::panic_message(&e)),
        }
    }
    res.evaluations += 1;
    let replay = json!({"check":"c13mt","prop":prop,"cfg":cfg});
    if let Some(msg) = panicked {
        res.violate(format!("{prop}:mt:panic:{}:{:?}", crate::normalise(&msg), cfg.algo.algo), format!("a worker thread panicked: {msg}"), replay);
        *log.reenter.lock() = None;
        return;
    }
    // C05 at a quiescent point: usage() / entries() equal what lookups can still find
    let mut acct_problem = None;
    {
        let found: Vec<(u64, u64, usize)> = (0..cfg.keys).filter_map(|k| cache.get(&k).map(|e| (k, e.value().id, e.weight()))).collect();
        let sum: usize = found.iter().map(|f| f.2).sum();
        if cache.usage() != sum || cache.entries() != found.len() {
            acct_problem = Some(format!(
                "after all threads joined and every handle was dropped: usage() = {}, entries() = {}, but lookups find {} entries of total weight {sum}: {found:?}",
                cache.usage(),
                cache.entries(),
                found.len()
            ));
        }
        res.count("mt_quiescent_accounting_checks", 1);
    }
    // C18 leak clause: no handle is outstanding now
    // (single shard only: with several shards the insert restores the bound of one shard, and an entry of weight 2
    // may legitimately exceed a shard whose share of the capacity is 0 or 1)
    // Concurrent resize() calls of different threads may leave capacity() and the shard's own bound at different
    // values, so the bound is re-established explicitly at this quiescent point first.
    let cap_now = cfg.capacity.max(2);
    let resized = cache.resize(cap_now).is_ok();
    if resized && cfg.shards == 1 {
        let id = next.fetch_add(1, Ordering::SeqCst);
        outs[0].inserted.push((id, 0, false));
        drop(cache.insert(0, Tv { key: 0, id, w: 1, phantom: false }));
        if std::env::var("VH_DEBUG").is_ok() && cache.usage() > cap_now {
            let found: Vec<(u64, u64, usize)> = (0..cfg.keys).filter_map(|k| cache.get(&k).map(|e| (k, e.value().id, e.weight()))).collect();
            eprintln!("usage {} entries {} capacity {} findable {:?} sum {}", cache.usage(), cache.entries(), cap_now, found, found.iter().map(|f| f.2).sum::<usize>());
        }
        if cache.usage() > cap_now && prop == "C18" {
            res.violate(
                format!("{prop}:mt:usage-above-capacity-with-no-handles:{:?}", cfg.algo.algo),
                format!("all handles dropped, one more fitting insert: usage {} > capacity {}", cache.usage(), cap_now),
                replay.clone(),
            );
        }
    }
    cleared.store(true, Ordering::SeqCst);
    cache.clear();
    *log.reenter.lock() = None;
    drop(cache);
    let leaves = std::mem::take(&mut *log.leaves.lock());
    let pipes = std::mem::take(&mut *log.pipes.lock());
    let mut inserted: BTreeMap<u64, (u64, bool)> = BTreeMap::new();
    let mut inserts_per_key: BTreeMap<u64, usize> = BTreeMap::new();
    let mut removes: BTreeSet<u64> = BTreeSet::new();
    for o in &outs {
        for (id, k, ph) in &o.inserted {
            inserted.insert(*id, (*k, *ph));
            *inserts_per_key.entry(*k).or_insert(0) += 1;
        }
        removes.extend(o.removes.iter().copied());
        res.count("mt_ops", o.ops);
        res.count("mt_handle_revalidations", o.handle_checks);
    }
    let mut problems: Vec<(String, String)> = outs.iter().flat_map(|o| o.problems.iter().cloned()).collect();
    let mut leave_count: BTreeMap<u64, Vec<Reason>> = BTreeMap::new();
    for l in &leaves {
        leave_count.entry(l.id).or_default().push(l.reason);
        if l.still_visible {
            problems.push(("leaving-entry-still-visible".into(), format!("on_leave({:?}) of id {} (key {}): a lookup from inside the callback still returned that entry", l.reason, l.id, l.key)));
        }
        match inserted.get(&l.id) {
            None => problems.push(("leave-event-for-unknown-id".into(), format!("{l:?}"))),
            Some((k, _)) if *k != l.key => problems.push(("leave-event-key-mismatch".into(), format!("{l:?} but id was inserted for key {k}"))),
            _ => {}
        }
        match l.reason {
            Reason::Remove if !removes.contains(&l.key) => problems.push(("reason-without-cause:remove".into(), format!("{l:?}: no thread ever called remove({})", l.key))),
            Reason::Clear if !cleared.load(Ordering::SeqCst) => problems.push(("reason-without-cause:clear".into(), format!("{l:?}: clear() was never called"))),
            Reason::Replace if inserts_per_key.get(&l.key).copied().unwrap_or(0) < 2 => problems.push(("reason-without-cause:replace".into(), format!("{l:?}: the key was inserted only once"))),
            _ => {}
        }
    }
    let mut pipe_count: BTreeMap<u64, usize> = BTreeMap::new();
    for p in &pipes {
        *pipe_count.entry(p.id).or_insert(0) += 1;
    }
    let mut reasons_seen = BTreeSet::new();
    for (id, (k, phantom)) in &inserted {
        let evs = leave_count.get(id).cloned().unwrap_or_default();
        let offers = pipe_count.get(id).copied().unwrap_or(0);
        for r in &evs {
            reasons_seen.insert(*r);
        }
        if *phantom {
            // disk-only: judged on the hand-off only
            if offers != 1 {
                problems.push((format!("pipe:disk-only-entry-offered-{}-times", offers.min(3)), format!("filtered insert id {id} (key {k}) was offered to the disk tier {offers} times")));
            }
            continue;
        }
        if evs.len() != 1 {
            problems.push((
                format!("leave-events:{}-for-one-entry", evs.len().min(3)),
                format!("insert id {id} (key {k}) has {} leave events {:?} after clear + drop", evs.len(), evs),
            ));
            continue;
        }
        match evs[0] {
            Reason::Evict if offers != 1 => problems.push((format!("pipe:evicted-entry-offered-{}-times", offers.min(3)), format!("id {id} (key {k}) left by eviction and was offered to the disk tier {offers} times"))),
            Reason::Replace | Reason::Remove | Reason::Clear if offers != 0 => {
                problems.push((format!("pipe:{:?}-entry-offered", evs[0]).to_lowercase(), format!("id {id} (key {k}) left with {:?} but was offered to the disk tier {offers} times", evs[0])))
            }
            _ => {}
        }
    }
    for p in &pipes {
        if !inserted.contains_key(&p.id) {
            problems.push(("pipe:unknown-id-offered".into(), format!("{p:?}")));
        }
    }
    res.count("mt_inserts", inserted.len() as u64);
    res.count("mt_leave_events", leaves.len() as u64);
    res.count("mt_pipe_offers", pipes.len() as u64);
    for r in &reasons_seen {
        res.count(&format!("mt_histories_with_{r:?}"), 1);
    }
    res.count(&format!("mt_algo_{:?}", cfg.algo.algo), 1);
    if reasons_seen.len() >= 2 {
        // distinct by what was observed: the order of leave events
        res.nontrivial_hashes.insert(fnv(format!("{:?}", leaves.iter().map(|l| (l.id, l.reason as u8)).collect::<Vec<_>>()).as_bytes()));
        if res.samples.len() < 2 {
            res.sample(json!({"mode":"multi-threaded","cfg":cfg,"inserts":inserted.len(),"leave_events":leaves.len(),"pipe_offers":pipes.len(),
                "first_leave_events": leaves.iter().take(10).collect::<Vec<_>>()}));
        }
    }
    if let Some(d) = acct_problem {
        problems.push(("acct:usage-mismatch-at-quiescent-point".into(), d));
    }
    // each property reports its own clauses
    let relevant = |sig: &str| match prop {
        "C05" => sig.starts_with("acct"),
        "C18" => sig.starts_with("handle-changed") || sig.starts_with("foreign-entry"),
        _ => !sig.starts_with("acct") && !sig.starts_with("handle-changed") && !sig.starts_with("foreign-entry"),
    };
    for (sig, detail) in problems.into_iter().filter(|p| relevant(&p.0)).take(2) {
        res.violate(format!("{prop}:mt:{sig}:{:?}", cfg.algo.algo), detail, replay.clone());
    }
}

pub fn gen_cfg(rng: &mut Rng, i: usize, tier: &str) -> Cfg {
    let algo = ALGOS[i % ALGOS.len()];
    let variants = AlgoCfg::variants(algo);
    Cfg {
        algo: variants[rng.usize(variants.len())],
        capacity: 3 + rng.usize(10),
        shards: 1 + rng.usize(4),
        threads: 2 + rng.usize(if tier == "thorough" { 6 } else { 3 }),
        ops: if tier == "miri" { 10 + rng.usize(10) } else { 100 + rng.usize(500) },
        keys: 3 + rng.below(6),
        seed: rng.next(),
        with_global: rng.chance(2, 3),
    }
}

pub fn run(prop: &str, seed: u64, tier: &str, shard: usize, nshards: usize) -> ShardResult {
    let mut res = ShardResult::new(&format!("c13mt-{prop}"), seed);
    let total = if tier == "miri" { 32 } else if tier == "thorough" { 24_000 } else { 1_600 };
    let mut rng = Rng::derive(seed, 0xC13_0000 + shard as u64);
    for i in 0..(total / nshards.max(1)).max(1) {
        let cfg = gen_cfg(&mut rng, i, tier);
        one(&cfg, &mut res, prop);
    }
    res
}

pub fn replay(prop: &str, cfg: Cfg) -> ShardResult {
    let mut res = ShardResult::new("c13mt-replay", cfg.seed);
    for _ in 0..200 {
        one(&cfg, &mut res, prop);
        if !res.violations.is_empty() {
            break;
        }
    }
    res
}
