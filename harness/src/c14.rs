//! C14: the observed Evict sequence of a single-shard cache equals the reference model's, per step.
use serde_json::json;

use crate::{
    mem::{ALGOS, Algo, AlgoCfg, MemCfg, MemHarness, Obs, Op, OpMix, Reason, Step},
    model::ModelCache,
    out::ShardResult,
    rng::{fnv, Rng},
};

pub struct Outcome {
    pub evictions: u64,
    pub steps_with_eviction: u64,
    pub mismatch: Option<(usize, String)>,
    pub obs: Vec<Obs>,
}

/// Run ops on the real cache and on the model in lock step.
pub fn run_case(cfg: &MemCfg, ops: &[Op]) -> Outcome {
    let mut h = MemHarness::new(cfg.clone());
    let mut obs = vec![];
    for op in ops {
        h.exec(op, &mut obs);
    }
    // flush out the complete internal order
    h.exec(&Op::DropAll, &mut obs);
    h.exec(&Op::EvictAll, &mut obs);
    let mut sink = vec![];
    h.finish(&mut sink);

    let mut m = ModelCache::new(&cfg.algo, cfg.capacity);
    let mut evictions = 0;
    let mut steps_with_eviction = 0;
    let mut mismatch = None;
    for (i, o) in obs.iter().enumerate() {
        let got: Vec<u64> = o.leaves.iter().filter(|l| l.reason == Reason::Evict).map(|l| l.id).collect();
        let want: Vec<u64> = match &o.step {
            Step::Insert { k, w, low, id, .. } => m.insert(*id, *k, *k / cfg.div.max(1), *w, *low),
            Step::Get { k, .. } => {
                m.get(*k);
                vec![]
            }
            Step::Touch { k, .. } => {
                if let Some(id) = m.get(*k) {
                    m.drop_handle(id);
                }
                vec![]
            }
            Step::Contains { .. } => vec![],
            Step::DropHandle { id } => {
                m.drop_handle(*id);
                vec![]
            }
            Step::CloneHandle { id } => {
                m.clone_handle(*id);
                vec![]
            }
            Step::Remove { k, .. } => {
                m.remove(*k);
                vec![]
            }
            Step::Clear => {
                m.clear();
                vec![]
            }
            Step::Resize { cap, ok } => {
                if *ok {
                    m.resize(*cap)
                } else {
                    vec![]
                }
            }
            Step::EvictAll | Step::Flush => m.evict_all(),
            Step::DropCache => vec![],
        };
        evictions += got.len() as u64;
        if !got.is_empty() {
            steps_with_eviction += 1;
        }
        if got != want && mismatch.is_none() {
            let key_of = |id: &u64| m.recs.get(id).map(|r| r.key);
            mismatch = Some((
                i,
                format!(
                    "step {i} {:?}: evicted ids {got:?} (keys {:?}), the {:?} model evicts {want:?} (keys {:?})",
                    o.step,
                    got.iter().map(key_of).collect::<Vec<_>>(),
                    cfg.algo.algo,
                    want.iter().map(key_of).collect::<Vec<_>>()
                ),
            ));
            break;
        }
        // cross-check residency
        for (k, c) in o.contains.iter().enumerate() {
            if *c != m.index.contains_key(&(k as u64)) && mismatch.is_none() {
                mismatch = Some((i, format!("step {i} {:?}: contains({k}) = {c}, model says {}", o.step, !c)));
            }
        }
        if mismatch.is_some() {
            break;
        }
    }
    Outcome { evictions, steps_with_eviction, mismatch, obs }
}

fn alphabet(algo: Algo, universe: u64) -> Vec<Op> {
    let mut a = vec![];
    for k in 0..universe {
        a.push(Op::InsertDrop { k, w: 1, low: false, phantom: false });
        a.push(Op::InsertDrop { k, w: 2, low: algo == Algo::Lru, phantom: false });
        a.push(Op::GetDrop { k });
        a.push(Op::RemoveDrop { k });
    }
    if algo == Algo::Lru {
        for k in 0..universe {
            a.push(Op::Get { k });
        }
        a.push(Op::Drop { slot: 0 });
    }
    a.push(Op::Resize { cap: 2 });
    a
}

fn classify(cfg: &MemCfg, out: &Outcome, ops: &[Op], res: &mut ShardResult, kind: &str) {
    res.evaluations += 1;
    res.count("evictions_compared", out.evictions);
    res.count(&format!("cases_{:?}", cfg.algo.algo), 1);
    if out.evictions >= 2 {
        res.nontrivial_hashes.insert(fnv(format!("{cfg:?}|{ops:?}").as_bytes()));
    }
    if let Some((i, d)) = &out.mismatch {
        res.violate(
            format!("C14:victim-order:{:?}", cfg.algo.algo),
            d.clone(),
            json!({"check":"c14","cfg":cfg,"ops":ops,"step_index":i,
                   "observed": out.obs.iter().take(i+1).map(|o| json!({"step":o.step,"leaves":o.leaves})).collect::<Vec<_>>()}),
        );
    } else if out.evictions >= 3 && res.samples.len() < 2 {
        res.sample(json!({"kind":kind,"cfg":cfg,"ops":ops.iter().take(30).collect::<Vec<_>>(),
            "evict_order": out.obs.iter().flat_map(|o| o.leaves.iter().filter(|l| l.reason==Reason::Evict).map(|l| l.key)).take(40).collect::<Vec<_>>()}));
    }
}

fn guarded(cfg: &MemCfg, ops: &[Op], res: &mut ShardResult, kind: &str) {
    match std::panic::catch_unwind(std::panic::AssertUnwindSafe(|| run_case(cfg, ops))) {
        Ok(out) => classify(cfg, &out, ops, res, kind),
        Err(e) => {
            let msg = crate::panic_message(&e);
            res.evaluations += 1;
            res.violate(
                format!("C14:panic:{}:{:?}", crate::normalise(&msg), cfg.algo.algo),
                format!("panic: {msg}"),
                json!({"check":"c14","cfg":cfg,"ops":ops}),
            );
        }
    }
}

pub fn run(seed: u64, tier: &str, shard: usize, nshards: usize) -> ShardResult {
    let mut res = ShardResult::new("c14", seed);
    res.exhaustive = true;
    let depth = if tier == "miri" { 2 } else if tier == "thorough" { 5 } else { 4 };
    let universe = 4u64;
    let mut gi = 0usize;
    for algo in ALGOS {
        // one exhaustive configuration per algorithm, chosen so that pools overflow within a few inserts
        let acfg = match algo {
            Algo::Lru => AlgoCfg { lru_high_ratio: 0.5, ..AlgoCfg::default_for(algo) },
            Algo::S3Fifo => AlgoCfg { s3_small_ratio: 0.34, s3_ghost_ratio: 1.0, s3_threshold: 1, ..AlgoCfg::default_for(algo) },
            Algo::Lfu => AlgoCfg { lfu_window_ratio: 0.34, lfu_protected_ratio: 0.34, ..AlgoCfg::default_for(algo) },
            _ => AlgoCfg::default_for(algo),
        };
        let cfg = MemCfg { algo: acfg, capacity: 3, shards: 1, pipe: false, reenter: false, div: 1, universe };
        let alpha = alphabet(algo, universe);
        let n = alpha.len();
        // Lru has a larger alphabet: one level less keeps the space comparable
        let d = if algo == Algo::Lru { depth - 1 } else { depth };
        let total = n.pow(d as u32);
        res.count("exhaustive_space", total as u64);
        for code in 0..total {
            gi += 1;
            if gi % nshards != shard {
                continue;
            }
            let mut c = code;
            let mut ops = Vec::with_capacity(d);
            for _ in 0..d {
                ops.push(alpha[c % n].clone());
                c /= n;
            }
            guarded(&cfg, &ops, &mut res, "exhaustive");
            res.count("exhaustive_cases", 1);
        }
    }
    // random long sequences over parameter variants
    let mut rng = Rng::derive(seed, 0xC14 + shard as u64);
    let total_random = if tier == "miri" { 32 } else if tier == "thorough" { 12_000 } else { 2_400 };
    for i in 0..total_random / nshards.max(1) {
        let algo = ALGOS[i % ALGOS.len()];
        let variants = AlgoCfg::variants(algo);
        let acfg = variants[rng.usize(variants.len())];
        let capacity = 2 + rng.usize(20);
        let universe = 4 + rng.below(24);
        let cfg = MemCfg { algo: acfg, capacity, shards: 1, pipe: false, reenter: false, div: 1, universe };
        let len = if tier == "miri" { 16 + rng.usize(32) } else if tier == "thorough" { 500 + rng.usize(4500) } else { 200 + rng.usize(1300) };
        let m = OpMix {
            universe,
            weights: vec![1, 1, 1, 2, 2, 3, 5],
            allow_phantom: false,
            allow_resize: true,
            resize_caps: vec![1, 2, capacity / 2 + 1, capacity, capacity + 5, capacity * 2],
            allow_clear: true,
            allow_flush: false,
            allow_touch: true,
            allow_low: true,
        };
        let ops: Vec<Op> = (0..len).map(|_| m.generate(&mut rng)).collect();
        guarded(&cfg, &ops, &mut res, "random");
        res.count("random_cases", 1);
    }
    res
}

pub fn replay(cfg: MemCfg, ops: Vec<Op>) -> ShardResult {
    let mut res = ShardResult::new("c14-replay", 0);
    guarded(&cfg, &ops, &mut res, "replay");
    res
}
