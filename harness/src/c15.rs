//! C15: a graceful close persists what memory held; close is idempotent; later writes are ignored.
use std::collections::BTreeMap;

use foyer::RecoverMode;
use serde::{Deserialize, Serialize};
use serde_json::json;

use crate::{
    hscript::{Exec, HOp, Loc},
    hyb::{self, HCfg, Policy, Seen},
    image::{self, Payload},
    mem::{AlgoCfg, ALGOS},
    out::ShardResult,
    rng::{fnv, Rng},
    value::{self, Stamp},
};

#[derive(Clone, Debug, Serialize, Deserialize)]
pub struct Plan {
    pub cfg: HCfg,
    /// (key, placement, has an older copy on disk first)
    pub keys: Vec<(u64, Loc, bool)>,
    pub size: usize,
    pub drop_without_close: bool,
    /// close() is called while device writes are held at the io gate (released 40 ms later by another task): writes are
    /// pending / in flight at close time
    #[serde(default)]
    pub held_close: bool,
    /// keys inserted (and evicted again by the resident set) right before the resident set, so that their disk writes
    /// are still pending in the flusher's buffer when close() starts
    #[serde(default)]
    pub burst: usize,
    /// before the resident set: this many drained bursts of tiny entries that overflow the flush buffer (legal shedding);
    /// the submit-queue threshold equals the flush buffer, as in the default configuration
    #[serde(default)]
    pub overflow_bursts: usize,
}

fn copies(cfg: &HCfg, dir: &std::path::Path) -> BTreeMap<Stamp, usize> {
    let mut m = BTreeMap::new();
    for e in image::parse_image(cfg, dir).entries {
        if let Payload::Value { stamp, .. } = e.payload {
            *m.entry(stamp).or_insert(0) += 1;
        }
    }
    m
}

async fn run_plan(plan: &Plan) -> Result<(Vec<(String, String)>, usize), String> {
    let cfg = &plan.cfg;
    let mut ex = Exec::new(cfg.clone()).await.map_err(|e| format!("open: {e}"))?;
    let mut problems = vec![];
    let mut latest: BTreeMap<u64, Stamp> = BTreeMap::new();
    // older copies first
    for (k, loc, older) in &plan.keys {
        if *older && *loc != Loc::InMem {
            ex.step(&HOp::Insert { k: *k, size: plan.size, loc: *loc }).await;
        }
    }
    ex.step(&HOp::EvictMem).await;
    ex.step(&HOp::Wait).await;
    for b in 0..plan.overflow_bursts as u64 {
        ex.step(&HOp::HoldFlush).await;
        for i in 0..500u64 {
            ex.step(&HOp::Insert { k: 200_000 + b * 1000 + i, size: 300, loc: Loc::Default }).await;
        }
        ex.step(&HOp::EvictMem).await;
        ex.step(&HOp::ReleaseFlush).await;
        ex.step(&HOp::Wait).await;
    }
    if plan.held_close {
        ex.step(&HOp::HoldWrites).await;
        for b in 0..plan.burst as u64 {
            ex.step(&HOp::Insert { k: 100_000 + b, size: plan.size, loc: Loc::Default }).await;
        }
    }
    for (k, loc, _) in &plan.keys {
        let o = ex.step(&HOp::Insert { k: *k, size: plan.size, loc: *loc }).await;
        if let Some(Seen::Hit(s)) = o.seen {
            latest.insert(*k, s);
        }
    }
    if !plan.held_close {
        ex.step(&HOp::Wait).await;
    }
    let resident: Vec<u64> = plan.keys.iter().map(|x| x.0).filter(|k| ex.cache().memory().contains(k)).collect();
    let before = copies(cfg, &ex.dir.0);
    let cache = ex.cache.take().unwrap();
    if plan.drop_without_close {
        drop(cache);
        // the implicit close runs on the runtime
        for _ in 0..50 {
            ex.settle().await;
        }
    } else {
        if plan.held_close {
            let io = ex.ctl.io.clone();
            let held_at_call = io.held_writes().len();
            let releaser = tokio::spawn({
                let io = io.clone();
                async move {
                    tokio::time::sleep(std::time::Duration::from_millis(40)).await;
                    io.release_writes();
                }
            });
            let r = cache.close().await;
            // close() must not return while device writes it is responsible for are still in flight
            let still_held = io.held_writes().len();
            let inflight = io.inflight.load(std::sync::atomic::Ordering::SeqCst);
            if still_held > 0 || inflight > 0 {
                problems.push((
                    "close-returned-with-device-writes-in-flight".to_string(),
                    format!("close() returned while {still_held} device writes were still held at the io gate and {inflight} ios were in flight ({held_at_call} were held when close() was called)"),
                ));
            }
            if let Err(e) = r {
                problems.push(("close-failed".to_string(), format!("{e}")));
            }
            let _ = releaser.await;
            io.release_writes();
            ex.writes_held = false;
            ex.settle().await;
        } else if let Err(e) = cache.close().await {
            problems.push(("close-failed".to_string(), format!("{e}")));
        }
        let after_close = copies(cfg, &ex.dir.0);
        // (with writes pending at close time, queued entries legitimately reach the device while close() drains the flushers)
        if !cfg.flush_on_close && after_close != before && !plan.held_close {
            problems.push((
                "close-wrote-entries-with-flush-on-close-off".to_string(),
                format!("entry copies on disk before close {before:?}, after {after_close:?}"),
            ));
        }
        // idempotent
        let w = ex.ctl.io.write_count();
        if let Err(e) = cache.close().await {
            problems.push(("second-close-failed".to_string(), format!("{e}")));
        }
        ex.settle().await;
        if ex.ctl.io.write_count() != w {
            problems.push(("second-close-wrote".to_string(), format!("{} device writes during the second close()", ex.ctl.io.write_count() - w)));
        }
        // writes after close are ignored
        let w = ex.ctl.io.write_count();
        let r = std::panic::catch_unwind(std::panic::AssertUnwindSafe(|| {
            let s = Stamp { key: 9_999, writer: 77, version: 1 };
            let e = cache.insert(9_999, value::make(s, 200, false));
            drop(e);
            cache.memory().evict_all();
            cache.remove(&plan.keys.first().map(|k| k.0).unwrap_or(0));
        }));
        if r.is_err() {
            problems.push(("insert-after-close-panicked".to_string(), "insert/evict/remove after close() panicked".to_string()));
        }
        ex.settle().await;
        if ex.ctl.io.write_count() != w {
            problems.push(("write-after-close".to_string(), format!("{} device writes were issued after close() returned", ex.ctl.io.write_count() - w)));
        }
        drop(cache);
        ex.settle().await;
    }
    let reclaimed = ex.ctl.io.snapshot_writes().iter().any(|w| w.offset == 0 && w.len == hyb::PAGE && w.data.iter().all(|b| *b == 0) && w.partition >= cfg.tombstone as u32);
    ex.reopen_count += 1;
    match hyb::open(cfg, &ex.dir.0, &ex.ctl, RecoverMode::Quiet).await {
        Err(e) => problems.push(("reopen-failed".to_string(), format!("{e}"))),
        Ok(c) => {
            ex.cache = Some(c);
            for (k, loc, older) in &plan.keys {
                let o = ex.step(&HOp::Get { k: *k }).await;
                let want = latest[k];
                match &o.seen {
                    Some(Seen::Hit(s)) if *s == want => {
                        if *loc == Loc::InMem {
                            problems.push(("in-memory-only-entry-on-disk-after-close".to_string(), format!("key {k}: {s:?} was advised in-memory-only but is served from disk after reopen")));
                        }
                    }
                    Some(Seen::Hit(s)) => {
                        // an older version: only acceptable if the newest one was not required to be persisted
                        let must_persist = !plan.drop_without_close && cfg.flush_on_close && *loc != Loc::InMem && resident.contains(k);
                        if must_persist || cfg.policy == Policy::WriteOnInsertion && *loc != Loc::InMem {
                            problems.push(("older-version-after-close".to_string(), format!("key {k}: reopen serves {s:?}, latest before close was {want:?} (had older disk copy: {older})")));
                        } else if s.key != *k {
                            problems.push(("foreign-after-close".to_string(), format!("key {k}: {s:?}")));
                        }
                    }
                    Some(Seen::Miss) => {
                        // dropping the last handle without close() runs the same close in the background: once the device is idle
                        // again the resident set must be on disk as well
                        let must_persist = cfg.flush_on_close && *loc != Loc::InMem && resident.contains(k) && !reclaimed;
                        if must_persist {
                            problems.push((
                                format!("resident-entry-lost-at-{}:{}", if plan.drop_without_close { "drop-without-close" } else { "close" }, crate::hscript::policy_name(cfg.policy)),
                                format!("key {k} ({loc:?}) was resident in memory before {} (flush_on_close on) but reads as a miss after reopen", if plan.drop_without_close { "the last handle was dropped without close() (the implicit background close had gone idle)" } else { "close()" }),
                            ));
                        }
                    }
                    other => problems.push(("bad-lookup-after-close".to_string(), format!("key {k}: {other:?}"))),
                }
            }
        }
    }
    ex.finish().await;
    Ok((problems, resident.len()))
}

pub fn run(seed: u64, tier: &str, shard: usize, nshards: usize) -> ShardResult {
    let mut res = ShardResult::new("c15", seed);
    let mut rt = tokio::runtime::Builder::new_multi_thread().worker_threads(3).enable_all().build().unwrap();
    let total = if tier == "thorough" { 6400 } else { 1600 };
    let mut rng = Rng::derive(seed, 0xC15_000 + shard as u64);
    for i in 0..total / nshards.max(1) {
        // a closed HybridCache keeps its partition files open for as long as its runtime lives: recycle the runtime regularly
        if i % 25 == 24 {
            std::mem::replace(&mut rt, tokio::runtime::Builder::new_multi_thread().worker_threads(3).enable_all().build().unwrap()).shutdown_background();
        }
        let mut cfg = HCfg::small(AlgoCfg::default_for(ALGOS[i % 5]));
        cfg.policy = if rng.chance(1, 2) { Policy::WriteOnEviction } else { Policy::WriteOnInsertion };
        cfg.flush_on_close = rng.chance(3, 4);
        cfg.block_size = 64 * 1024;
        cfg.blocks = 16;
        cfg.flushers = 1 + rng.usize(2);
        cfg.buffer_pool_size = 256 * 1024 * cfg.flushers;
        cfg.tombstone = rng.chance(1, 2);
        let size = *rng.pick(&[100usize, 1000, 3000, 4096]);
        // resident set from empty up to the flush buffer limit (per flusher io buffer = pool / flushers)
        let limit = (cfg.buffer_pool_size / cfg.flushers) / (size + 64).div_ceil(hyb::PAGE).max(1) / hyb::PAGE;
        let n = match rng.below(5) {
            0 => 0,
            1 => 1,
            2 => limit.max(1),
            _ => 1 + rng.usize(limit.max(2)),
        };
        cfg.mem_capacity = (n + 2) * (size + 64) * 2;
        let keys: Vec<(u64, Loc, bool)> = (0..n as u64)
            .map(|k| (k, *rng.pick(&[Loc::Default, Loc::Default, Loc::Default, Loc::InMem]), rng.chance(1, 3)))
            .collect();
        let drop_without_close = rng.chance(1, 6);
        let held_close = !drop_without_close && rng.chance(1, 3);
        let mut cfg = cfg;
        let mut burst = 0;
        if held_close {
            // memory holds just the resident set; the burst is evicted by it and stays pending behind the held write
            let len = size.max(value::MIN_LEN);
            cfg.mem_capacity = n * len + len / 2;
            cfg.mem_shards = 1;
            let pp = (size + 64).div_ceil(hyb::PAGE).max(1);
            let bpages = cfg.buffer_pool_size / cfg.flushers / hyb::PAGE;
            if cfg.policy == Policy::WriteOnEviction && n * pp <= bpages {
                // pending alone fits the buffer, pending + resident does not
                burst = (bpages * 7 / 10) / pp;
            }
        }
        let mut overflow_bursts = 0;
        if !held_close && !drop_without_close && cfg.policy == Policy::WriteOnEviction && rng.chance(1, 4) {
            overflow_bursts = 4;
            cfg.buffer_pool_size = 128 * 1024 * cfg.flushers;
            cfg.submit_queue_threshold = 128 * 1024;
            cfg.mem_capacity = cfg.mem_capacity.max(64 * 1024);
        }
        // the resident set must fit the (possibly smaller) flush buffer
        let bpages = cfg.buffer_pool_size / cfg.flushers / hyb::PAGE;
        let keys: Vec<(u64, Loc, bool)> = if overflow_bursts > 0 { keys.into_iter().take(bpages / 4 / (size + 64).div_ceil(hyb::PAGE).max(1)).collect() } else { keys };
        let plan = Plan { cfg, keys, size, drop_without_close, held_close, burst, overflow_bursts };
        let r = rt.block_on(async { tokio::time::timeout(std::time::Duration::from_secs(300), run_plan(&plan)).await });
        res.evaluations += 1;
        match r {
            Err(_) => {
                res.inconclusive += 1;
                res.inconclusive_notes.push("plan did not finish within 300s".into());
            }
            Ok(Err(e)) => {
                res.inconclusive += 1;
                res.inconclusive_notes.push(e);
            }
            Ok(Ok((problems, resident))) => {
                res.count("resident_entries_at_close", resident as u64);
                res.count(&format!("plans_flush_on_close_{}", plan.cfg.flush_on_close), 1);
                res.count(&format!("plans_{:?}", plan.cfg.policy), 1);
                if plan.drop_without_close {
                    res.count("plans_drop_without_close", 1);
                }
                if plan.overflow_bursts > 0 {
                    res.count("plans_with_flush_buffer_overflow_bursts_before_close", 1);
                }
                if plan.held_close {
                    res.count("plans_close_with_device_writes_held", 1);
                    if plan.burst > 0 {
                        res.count("plans_close_with_pending_burst", 1);
                    }
                }
                if resident > 0 {
                    res.nontrivial_hashes.insert(fnv(format!("{plan:?}").as_bytes()));
                    if res.samples.len() < 2 {
                        res.sample(json!({"plan": plan, "resident_at_close": resident}));
                    }
                }
                for (sig, detail) in problems.iter().take(1) {
                    res.violate(format!("C15:{sig}"), detail.clone(), json!({"check":"c15","plan":plan}));
                }
            }
        }
    }
    res
}
