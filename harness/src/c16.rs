//! C16: user callbacks (listener, weighter, filter, key/value destructors) call back into the same
//! single-shard cache.  If foyer invoked one of them while holding an internal lock, the re-entrant
//! call self-deadlocks; parking_lot's deadlock detector (a logical, not a wall-clock oracle) reports
//! the cycle and the monitor thread writes the witness.  A wall-clock watchdog only ever yields
//! "inconclusive".
use std::{
    cell::Cell,
    hash::{Hash, Hasher},
    sync::{
        atomic::{AtomicBool, AtomicU64, Ordering},
        Arc, OnceLock,
    },
    time::{Duration, Instant},
};

use foyer::{Cache, CacheBuilder, CacheEntry, CacheProperties, Event, EventListener};
use parking_lot::Mutex;
use serde::{Deserialize, Serialize};
use serde_json::json;

use crate::{
    mem::{Algo, AlgoCfg, DivHasher, ALGOS},
    out::ShardResult,
    rng::{fnv, Rng},
};

thread_local! {
    static DEPTH: Cell<u32> = const { Cell::new(0) };
}

/// Type-erased view of the cache for re-entrant calls (a trait object also keeps the auto-trait
/// analysis of the recursive Ctx <-> Cache types out of rustc's way).
trait Reenter: Send + Sync {
    fn get(&self, k: u64, ctx: &Arc<Ctx>);
    fn remove(&self, k: u64, ctx: &Arc<Ctx>);
    fn insert(&self, k: u64, id: u64, ctx: &Arc<Ctx>);
    fn touch(&self, k: u64, ctx: &Arc<Ctx>);
    fn contains(&self, k: u64, ctx: &Arc<Ctx>);
}

struct Erased(RCache);
impl Reenter for Erased {
    fn get(&self, k: u64, ctx: &Arc<Ctx>) {
        let _ = self.0.get(&RKey { k, ctx: ctx.clone() });
    }
    fn remove(&self, k: u64, ctx: &Arc<Ctx>) {
        let _ = self.0.remove(&RKey { k, ctx: ctx.clone() });
    }
    fn insert(&self, k: u64, id: u64, ctx: &Arc<Ctx>) {
        let e = self.0.insert(RKey { k, ctx: ctx.clone() }, RVal { id, key: k, ctx: ctx.clone() });
        drop(e);
    }
    fn touch(&self, k: u64, ctx: &Arc<Ctx>) {
        let _ = self.0.touch(&RKey { k, ctx: ctx.clone() });
    }
    fn contains(&self, k: u64, ctx: &Arc<Ctx>) {
        let _ = self.0.contains(&RKey { k, ctx: ctx.clone() });
    }
}

pub struct Ctx {
    cache: OnceLock<Box<dyn Reenter>>,
    active: AtomicBool,
    next_id: AtomicU64,
    /// which callback kinds re-enter, and what they do (bitmask chosen per sequence)
    plan: AtomicU64,
    pub last_callback: Mutex<String>,
    pub reentries: AtomicU64,
    pub callbacks: [AtomicU64; 5],
}

const CB_LISTENER: usize = 0;
const CB_VALUE_DROP: usize = 1;
const CB_KEY_DROP: usize = 2;
const CB_WEIGHTER: usize = 3;
const CB_FILTER: usize = 4;
const CB_NAMES: [&str; 5] = ["listener", "value-drop", "key-drop", "weighter", "filter"];

pub struct RKey {
    pub k: u64,
    ctx: Arc<Ctx>,
}
impl PartialEq for RKey {
    fn eq(&self, o: &Self) -> bool {
        self.k == o.k
    }
}
impl Eq for RKey {}
impl Hash for RKey {
    fn hash<H: Hasher>(&self, h: &mut H) {
        h.write_u64(self.k)
    }
}
impl Clone for RKey {
    fn clone(&self) -> Self {
        RKey { k: self.k, ctx: self.ctx.clone() }
    }
}
impl Drop for RKey {
    fn drop(&mut self) {
        reenter(&self.ctx, CB_KEY_DROP, self.k);
    }
}

pub struct RVal {
    pub id: u64,
    pub key: u64,
    ctx: Arc<Ctx>,
}
impl Drop for RVal {
    fn drop(&mut self) {
        reenter(&self.ctx, CB_VALUE_DROP, self.key);
    }
}

type RCache = Cache<RKey, RVal, DivHasher, CacheProperties>;
type REntry = CacheEntry<RKey, RVal, DivHasher, CacheProperties>;

/// Called from every user callback: performs a lookup, an insert and a remove on the same shard.
fn reenter(ctx: &Arc<Ctx>, kind: usize, key: u64) {
    ctx.callbacks[kind].fetch_add(1, Ordering::Relaxed);
    if !ctx.active.load(Ordering::Relaxed) {
        return;
    }
    let plan = ctx.plan.load(Ordering::Relaxed);
    if plan & (1 << kind) == 0 {
        return;
    }
    let depth = DEPTH.with(|d| d.get());
    if depth >= 2 {
        return;
    }
    let Some(cache) = ctx.cache.get() else { return };
    DEPTH.with(|d| d.set(depth + 1));
    *ctx.last_callback.lock() = format!("{}:key={key}:depth={depth}", CB_NAMES[kind]);
    ctx.reentries.fetch_add(1, Ordering::Relaxed);
    let what = (plan >> (8 + 2 * kind)) & 3;
    let probe = 900 + (key % 3);
    // every variant needs the shard's write or read lock; the key universe maps to one shard
    match what {
        0 => {
            cache.get(key, ctx);
            cache.remove(probe, ctx);
        }
        1 => {
            if kind != CB_WEIGHTER && kind != CB_FILTER {
                let id = ctx.next_id.fetch_add(1, Ordering::Relaxed);
                cache.insert(probe, id, ctx);
            } else {
                cache.contains(probe, ctx);
                cache.remove(probe, ctx);
            }
        }
        2 => cache.remove(key, ctx),
        _ => {
            cache.touch(key, ctx);
            cache.contains(probe, ctx);
            cache.remove(probe, ctx);
        }
    }
    ctx.last_callback.lock().clear();
    DEPTH.with(|d| d.set(depth));
}

struct Listener(Arc<Ctx>);
impl EventListener for Listener {
    type Key = RKey;
    type Value = RVal;
    fn on_leave(&self, _: Event, key: &RKey, _: &RVal) {
        reenter(&self.0, CB_LISTENER, key.k);
    }
}

#[derive(Clone, Debug, Serialize, Deserialize, PartialEq)]
pub enum ROp {
    Insert { k: u64, keep: bool },
    Get { k: u64, keep: bool },
    Remove { k: u64 },
    Touch { k: u64 },
    DropHandle,
    Clear,
    EvictAll,
    Resize { cap: usize },
    /// get_or_fetch resolved on a current-thread runtime driven by the worker
    Fetch { k: u64, fail: bool },
    /// insert while a fetch of the key is pending (takes over the in-flight entry, whose key copy is dropped)
    FetchThenInsert { k: u64 },
    /// hybrid-shaped lookup: a leader with only an optional ("disk") fetch, which misses (0), hits (1) or fails (2);
    /// `joiner`: a second lookup-only caller joins before it resolves.  The in-flight entry is retired by the fetch
    /// task itself (its key copy is dropped there).
    LookupOnly { k: u64, outcome: u8, joiner: bool },
}

#[derive(Clone, Debug, Serialize, Deserialize)]
pub struct Case {
    pub algo: Algo,
    pub capacity: usize,
    pub plan: u64,
    pub ops: Vec<ROp>,
}

pub struct Shared {
    pub current: Mutex<Option<Case>>,
    pub progress: AtomicU64,
    pub ctx: Mutex<Option<Arc<Ctx>>>,
    pub done: AtomicBool,
}

fn run_case(case: &Case, shared: &Shared, res: &mut ShardResult) {
    let ctx = Arc::new(Ctx {
        cache: OnceLock::new(),
        active: AtomicBool::new(true),
        next_id: AtomicU64::new(1_000_000),
        plan: AtomicU64::new(case.plan),
        last_callback: Mutex::new(String::new()),
        reentries: AtomicU64::new(0),
        callbacks: Default::default(),
    });
    *shared.ctx.lock() = Some(ctx.clone());
    let (c1, c2) = (ctx.clone(), ctx.clone());
    let cache: RCache = CacheBuilder::new(case.capacity)
        .with_shards(1)
        .with_eviction_config(AlgoCfg::default_for(case.algo).eviction_config())
        .with_hash_builder(DivHasher { div: 1_000_000 }) // every key has hash 0: one shard, one bucket chain
        .with_weighter(move |k: &RKey, _: &RVal| {
            reenter(&c1, CB_WEIGHTER, k.k);
            1
        })
        .with_filter(move |k: &RKey, _: &RVal| {
            reenter(&c2, CB_FILTER, k.k);
            true
        })
        .with_event_listener(Arc::new(Listener(ctx.clone())))
        .build();
    let _ = ctx.cache.set(Box::new(Erased(cache.clone())));
    let rt = tokio::runtime::Builder::new_current_thread().build().unwrap();
    let mut bag: Vec<REntry> = vec![];
    let mut id = 1u64;
    for op in &case.ops {
        shared.progress.fetch_add(1, Ordering::Relaxed);
        let key = |k: u64| RKey { k, ctx: ctx.clone() };
        match op {
            ROp::Insert { k, keep } => {
                id += 1;
                let e = cache.insert(key(*k), RVal { id, key: *k, ctx: ctx.clone() });
                if *keep {
                    bag.push(e);
                }
            }
            ROp::Get { k, keep } => {
                if let Some(e) = cache.get(&key(*k)) {
                    if *keep {
                        bag.push(e);
                    }
                }
            }
            ROp::Remove { k } => {
                let _ = cache.remove(&key(*k));
            }
            ROp::Touch { k } => {
                let _ = cache.touch(&key(*k));
            }
            ROp::DropHandle => {
                if !bag.is_empty() {
                    bag.remove(0);
                }
            }
            ROp::Clear => cache.clear(),
            ROp::EvictAll => cache.evict_all(),
            ROp::Resize { cap } => {
                let _ = cache.resize(*cap);
            }
            ROp::Fetch { k, fail } => {
                id += 1;
                let (kk, vid, cx, fail) = (*k, id, ctx.clone(), *fail);
                let r = rt.block_on(async {
                    let _g = ();
                    cache
                        .get_or_fetch(&key(kk), move || async move {
                            tokio::task::yield_now().await;
                            if fail {
                                Err(anyhow::anyhow!("origin-down"))
                            } else {
                                Ok(RVal { id: vid, key: kk, ctx: cx })
                            }
                        })
                        .await
                });
                drop(r);
            }
            ROp::LookupOnly { k, outcome, joiner } => {
                id += 1;
                let (kk, vid, outcome, joiner) = (*k, id, *outcome, *joiner);
                rt.block_on(async {
                    let spawner = foyer::Spawner::current();
                    let mk = |cx: Arc<Ctx>| {
                        let (tx, rx) = tokio::sync::oneshot::channel::<()>();
                        let fo: foyer_memory::OptionalFetchBuilder<RKey, RVal, CacheProperties, ()> = Box::new(move |_: &mut ()| {
                            use futures_util::FutureExt;
                            async move {
                                let _ = rx.await;
                                match outcome {
                                    1 => Ok(Some(foyer_memory::FetchTarget::Entry { value: RVal { id: vid, key: kk, ctx: cx }, properties: CacheProperties::default() })),
                                    2 => Err(foyer::Error::new(foyer::ErrorKind::Io, "disk-down")),
                                    _ => Ok(None),
                                }
                            }
                            .boxed()
                        });
                        (tx, fo)
                    };
                    let (tx1, fo1) = mk(ctx.clone());
                    let g1 = cache.get_or_fetch_inner(&key(kk), || Some(fo1), || None, (), &spawner);
                    let mut g1 = Box::pin(g1);
                    let w1 = tokio::spawn(async move { std::future::poll_fn(move |cx| g1.as_mut().poll_inner(cx)).await.map(|e| e.is_some()) });
                    for _ in 0..3 {
                        tokio::task::yield_now().await;
                    }
                    let mut w2 = None;
                    let mut tx2 = None;
                    if joiner {
                        let (t2, fo2) = mk(ctx.clone());
                        tx2 = Some(t2);
                        let g2 = cache.get_or_fetch_inner(&key(kk), || Some(fo2), || None, (), &spawner);
                        let mut g2 = Box::pin(g2);
                        w2 = Some(tokio::spawn(async move { std::future::poll_fn(move |cx| g2.as_mut().poll_inner(cx)).await.map(|e| e.is_some()) }));
                        for _ in 0..3 {
                            tokio::task::yield_now().await;
                        }
                    }
                    let _ = tx1.send(());
                    if let Some(t) = tx2 {
                        let _ = t.send(());
                    }
                    let _ = w1.await;
                    if let Some(w) = w2 {
                        let _ = w.await;
                    }
                });
            }
            ROp::FetchThenInsert { k } => {
                id += 2;
                let (kk, vid, cx) = (*k, id, ctx.clone());
                rt.block_on(async {
                    let (tx, rx) = tokio::sync::oneshot::channel::<()>();
                    let fut = cache.get_or_fetch(&key(kk), move || async move {
                        let _ = rx.await;
                        Ok::<_, anyhow::Error>(RVal { id: vid, key: kk, ctx: cx })
                    });
                    let waiter = tokio::spawn(fut);
                    for _ in 0..3 {
                        tokio::task::yield_now().await;
                    }
                    let e = cache.insert(key(kk), RVal { id: vid - 1, key: kk, ctx: ctx.clone() });
                    drop(e);
                    let _ = tx.send(());
                    let _ = waiter.await;
                });
            }
        }
    }
    drop(bag);
    cache.clear();
    ctx.active.store(false, Ordering::Relaxed);
    drop(rt);
    drop(cache);
    res.evaluations += 1;
    let re = ctx.reentries.load(Ordering::Relaxed);
    res.count("reentrant_calls_completed", re);
    for (i, n) in CB_NAMES.iter().enumerate() {
        res.count(&format!("callbacks_{n}"), ctx.callbacks[i].load(Ordering::Relaxed));
    }
    res.count(&format!("cases_{:?}", case.algo), 1);
    if re > 0 {
        res.nontrivial_hashes.insert(fnv(format!("{case:?}").as_bytes()));
        if res.samples.len() < 2 {
            res.sample(json!({"case": case, "reentrant_calls_completed": re}));
        }
    }
    *shared.ctx.lock() = None;
}

fn gen_case(rng: &mut Rng, algo: Algo) -> Case {
    // which callbacks re-enter (bits 0..5) and what each does (2 bits per kind from bit 8)
    let mut plan = rng.below(32).max(1);
    if rng.chance(1, 3) {
        plan = 31;
    }
    for kind in 0..5 {
        plan |= rng.below(4) << (8 + 2 * kind);
    }
    let n = 6 + rng.usize(30);
    let ops = (0..n)
        .map(|_| {
            let k = rng.below(5);
            match rng.below(100) {
                0..=29 => ROp::Insert { k, keep: rng.chance(1, 3) },
                30..=44 => ROp::Get { k, keep: rng.chance(1, 2) },
                45..=54 => ROp::Remove { k },
                55..=59 => ROp::Touch { k },
                60..=69 => ROp::DropHandle,
                70..=73 => ROp::Clear,
                74..=77 => ROp::EvictAll,
                78..=80 => ROp::Resize { cap: 1 + rng.usize(6) },
                81..=88 => ROp::Fetch { k, fail: rng.chance(1, 4) },
                89..=94 => ROp::LookupOnly { k, outcome: rng.below(3) as u8, joiner: rng.chance(1, 3) },
                _ => ROp::FetchThenInsert { k },
            }
        })
        .collect();
    Case { algo, capacity: 2 + rng.usize(4), plan, ops }
}

/// Runs in its own process (the driver starts one process per shard): on a detected deadlock the
/// monitor thread writes the result file and exits the process.
pub fn run(seed: u64, tier: &str, shard: usize, nshards: usize, out_path: &str, replay: Option<Case>) -> ShardResult {
    let shared = Arc::new(Shared {
        current: Mutex::new(None),
        progress: AtomicU64::new(0),
        ctx: Mutex::new(None),
        done: AtomicBool::new(false),
    });
    let partial: Arc<Mutex<ShardResult>> = Arc::new(Mutex::new(ShardResult::new("c16", seed)));
    // monitor thread: logical deadlock oracle + wall-clock watchdog (inconclusive only)
    {
        let shared = shared.clone();
        let partial = partial.clone();
        let out_path = out_path.to_string();
        std::thread::spawn(move || {
            let mut last = (0u64, Instant::now());
            loop {
                std::thread::sleep(Duration::from_millis(25));
                if shared.done.load(Ordering::Relaxed) {
                    return;
                }
                let dl = parking_lot::deadlock::check_deadlock();
                if !dl.is_empty() {
                    let mut res = std::mem::take(&mut *partial.lock());
                    let case = shared.current.lock().clone();
                    let cb = shared.ctx.lock().as_ref().map(|c| c.last_callback.try_lock().map(|g| g.clone()).unwrap_or_default()).unwrap_or_default();
                    let kind = cb.split(':').next().unwrap_or("none").to_string();
                    let mut bts = vec![];
                    for (i, threads) in dl.iter().enumerate() {
                        for t in threads {
                            let bt = format!("{:?}", t.backtrace());
                            let frames: Vec<&str> = bt
                                .lines()
                                .filter(|l| l.contains("foyer") || l.contains("vh::"))
                                .take(24)
                                .collect();
                            bts.push(format!("cycle {i} thread {:?}:\n{}", t.thread_id(), frames.join("\n")));
                        }
                    }
                    res.evaluations += 1;
                    res.violate(
                        format!("C16:deadlock:in-callback={kind}"),
                        format!("parking_lot deadlock detector reported a cycle while callback [{cb}] was re-entering the cache\n{}", bts.join("\n")),
                        json!({"check":"c16","case":case}),
                    );
                    res.write(&out_path);
                    std::process::exit(0);
                }
                let p = shared.progress.load(Ordering::Relaxed);
                if p != last.0 {
                    last = (p, Instant::now());
                } else if last.1.elapsed() > Duration::from_secs(120) {
                    let mut res = std::mem::take(&mut *partial.lock());
                    res.inconclusive += 1;
                    res.inconclusive_notes.push(format!(
                        "no progress for 120s without a detector report (case {:?})",
                        shared.current.lock().clone()
                    ));
                    res.write(&out_path);
                    std::process::exit(0);
                }
            }
        });
    }
    let total = if tier == "thorough" { 640_000 } else { 96_000 };
    let mut rng = Rng::derive(seed, 0xC16 + shard as u64);
    let n = if replay.is_some() { 1 } else { total / nshards.max(1) };
    for i in 0..n {
        let case = match &replay {
            Some(c) => c.clone(),
            None => gen_case(&mut rng, ALGOS[i % 5]),
        };
        *shared.current.lock() = Some(case.clone());
        let mut local = ShardResult::new("tmp", 0);
        let r = std::panic::catch_unwind(std::panic::AssertUnwindSafe(|| run_case(&case, &shared, &mut local)));
        let mut g = partial.lock();
        match r {
            Ok(()) => g.merge_counts(local),
            Err(e) => {
                let msg = crate::panic_message(&e);
                g.evaluations += 1;
                g.violate(
                    format!("C16:panic:{}", crate::normalise(&msg)),
                    format!("panic in a sequence with re-entrant callbacks: {msg}"),
                    json!({"check":"c16","case":case}),
                );
            }
        }
    }
    shared.done.store(true, Ordering::Relaxed);
    std::mem::take(&mut *partial.lock())
}
