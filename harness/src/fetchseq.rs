//! C06 / C11 (memory-cache side): scripted orderings of callers arriving (lookup-only, fetching,
//! hybrid-shaped with a "disk lookup" stage), lookup / origin futures resolving (hit, miss, error),
//! callers being dropped, the fetch runtime being cancelled, and concurrent insert / remove.
//!
//! All fetch futures are harness-owned gates.  Two current-thread runtimes (callers, fetch tasks)
//! are stepped by the harness, so every script is deterministic and "still pending after all gates
//! were released and both runtimes are idle" is a hang, independent of machine load.
//!
//! Oracle: a small sequential model of the documented coalescing protocol gives the expected
//! outcome of every caller; plus protocol-independent invariants (at most one origin fetch in
//! flight per key and epoch, failed fetch caches nothing, final cache content).
use std::{
    collections::BTreeMap,
    pin::Pin,
    sync::{
        atomic::{AtomicI64, AtomicU64, Ordering},
        Arc,
    },
    task::{Context, Poll},
};

use foyer::{Cache, CacheBuilder, CacheEntry, CacheProperties, Error, ErrorKind, Spawner};
use foyer_memory::{FetchTarget, OptionalFetchBuilder, RequiredFetchBuilder};
use futures_util::FutureExt;
use parking_lot::Mutex;
use serde::{Deserialize, Serialize};
use serde_json::json;
use tokio::sync::oneshot;

use crate::{
    mem::{Algo, AlgoCfg, DivHasher, Tv},
    out::ShardResult,
    rng::{fnv, Rng},
};

type MCache = Cache<u64, Tv, DivHasher, CacheProperties>;
type MEntry = CacheEntry<u64, Tv, DivHasher, CacheProperties>;

#[derive(Clone, Copy, Debug, PartialEq, Eq, Serialize, Deserialize, Hash)]
pub enum Kind {
    /// hybrid `get`: disk lookup only
    Lookup,
    /// hybrid `get_or_fetch`: disk lookup, then origin
    Fetch,
    /// memory `get_or_fetch`: origin only
    MemFetch,
}

#[derive(Clone, Copy, Debug, PartialEq, Eq, Serialize, Deserialize, Hash)]
pub enum Act {
    Arrive { key: u64, kind: Kind },
    OptHit { key: u64 },
    OptMiss { key: u64 },
    OptErr { key: u64 },
    ReqOk { key: u64 },
    ReqErr { key: u64 },
    Insert { key: u64 },
    /// the origin future of the running fetch itself inserts a newer value (`cache.insert`) right before it returns its
    /// own, older result: the insert completes during the origin's final poll
    ReqOkAfterInsert { key: u64 },
    /// like `ReqOkAfterInsert`, but the origin future also removes the key again before it returns: the superseding value
    /// is gone when the superseded fetch result arrives, which must still not be published
    ReqOkAfterInsertRemove { key: u64 },
    /// a caller arrives and the fetch runtime is shut down before the new fetch task was ever polled; only as last action
    ArriveAndCancel { key: u64, kind: Kind },
    /// explicit insert of a value the cache's filter rejects (a disk-only / phantom record): nothing is stored in memory,
    /// but waiters of a pending fetch must still receive it
    InsertPhantom { key: u64 },
    Remove { key: u64 },
    /// drop the oldest still pending caller of the key
    DropCaller { key: u64 },
    /// shut the fetch runtime down (all fetch tasks are dropped); only as last action
    CancelFetchRuntime,
}

#[derive(Clone, Debug, PartialEq, Eq, Serialize, Deserialize)]
pub enum Outcome {
    Pending,
    Value(u64),
    NoValue,
    ErrOrigin,
    ErrDisk,
    ErrCancelled,
    ErrOther(String),
    Dropped,
}

enum GateMsg {
    Hit(u64),
    Miss,
    Ok(u64),
    /// insert the second value into the cache, then return the first one
    InsertThenOk(u64, u64),
    InsertRemoveThenOk(u64, u64),
    Err(&'static str),
}

struct Gate {
    key: u64,
    optional: bool,
    tx: Option<oneshot::Sender<GateMsg>>,
    started: Arc<AtomicU64>,
    zombie_epoch: u64,
}

/// Future wrapper that tells the monitor when an origin / lookup future is first polled and when it ends.
struct Tracked<F> {
    inner: F,
    started: Arc<AtomicU64>,
    inflight: Arc<AtomicI64>,
    max_inflight: Arc<AtomicI64>,
    counted: bool,
}

impl<F: Future + Unpin> Future for Tracked<F> {
    type Output = F::Output;
    fn poll(mut self: Pin<&mut Self>, cx: &mut Context<'_>) -> Poll<F::Output> {
        if !self.counted {
            self.counted = true;
            self.started.store(1, Ordering::SeqCst);
            let n = self.inflight.fetch_add(1, Ordering::SeqCst) + 1;
            self.max_inflight.fetch_max(n, Ordering::SeqCst);
        }
        Pin::new(&mut self.inner).poll(cx)
    }
}

impl<F> Drop for Tracked<F> {
    fn drop(&mut self) {
        if self.counted {
            self.inflight.fetch_sub(1, Ordering::SeqCst);
        }
    }
}

// ------------------------------------------------------------------------------------------ model
#[derive(Clone, Debug)]
struct Flight {
    waiters: Vec<usize>,
    phase_optional: bool,
    /// leader brought its own origin closure
    leader_req: bool,
    /// a joiner donated its origin closure
    donated_req: bool,
    in_required: bool,
}

#[derive(Default)]
struct Model {
    present: BTreeMap<u64, u64>,
    flights: BTreeMap<u64, Flight>,
    expect: Vec<Outcome>,
    /// gates of superseded (zombie) fetches must be ignored by Res* actions: tracked by the harness through `zombie`
    origin_runs: u64,
}

impl Model {
    fn notify(&mut self, waiters: &[usize], o: Outcome) {
        for w in waiters {
            if self.expect[*w] == Outcome::Pending {
                self.expect[*w] = o.clone();
            }
        }
    }
    fn arrive(&mut self, key: u64, kind: Kind) -> usize {
        let c = self.expect.len();
        self.expect.push(Outcome::Pending);
        if let Some(v) = self.present.get(&key) {
            self.expect[c] = Outcome::Value(*v);
            return c;
        }
        let has_req = kind != Kind::Lookup;
        if let Some(f) = self.flights.get_mut(&key) {
            f.waiters.push(c);
            if !f.donated_req && has_req {
                f.donated_req = true;
            }
            return c;
        }
        let has_opt = kind != Kind::MemFetch;
        let mut f = Flight { waiters: vec![c], phase_optional: has_opt, leader_req: has_req, donated_req: false, in_required: false };
        if !has_opt {
            // straight to the origin
            f.in_required = true;
            self.origin_runs += 1;
        }
        self.flights.insert(key, f);
        c
    }
    /// the lookup stage ended without a value; `err` = it failed
    fn optional_done(&mut self, key: u64, err: bool) {
        let Some(f) = self.flights.get_mut(&key) else { return };
        if !f.phase_optional {
            return;
        }
        f.phase_optional = false;
        if f.leader_req || f.donated_req {
            f.in_required = true;
            self.origin_runs += 1;
        } else {
            let f = self.flights.remove(&key).unwrap();
            self.notify(&f.waiters, if err { Outcome::ErrDisk } else { Outcome::NoValue });
        }
    }
    fn optional_hit(&mut self, key: u64, v: u64) {
        let Some(f) = self.flights.get(&key) else { return };
        if !f.phase_optional {
            return;
        }
        let f = self.flights.remove(&key).unwrap();
        self.present.insert(key, v);
        self.notify(&f.waiters, Outcome::Value(v));
    }
    fn required_done(&mut self, key: u64, v: Option<u64>) {
        let Some(f) = self.flights.get(&key) else { return };
        if !f.in_required {
            return;
        }
        let f = self.flights.remove(&key).unwrap();
        match v {
            Some(v) => {
                self.present.insert(key, v);
                self.notify(&f.waiters, Outcome::Value(v));
            }
            None => self.notify(&f.waiters, Outcome::ErrOrigin),
        }
    }
    fn insert(&mut self, key: u64, v: u64) {
        self.present.insert(key, v);
        if let Some(f) = self.flights.remove(&key) {
            self.notify(&f.waiters, Outcome::Value(v));
        }
    }
    fn insert_phantom(&mut self, key: u64, v: u64) {
        // a filtered insert removes the in-memory copy and stores nothing; waiters still receive the value
        self.present.remove(&key);
        if let Some(f) = self.flights.remove(&key) {
            self.notify(&f.waiters, Outcome::Value(v));
        }
    }
    fn remove(&mut self, key: u64) {
        self.present.remove(&key);
    }
    fn cancel_all(&mut self) {
        let fl = std::mem::take(&mut self.flights);
        for (_, f) in fl {
            self.notify(&f.waiters, Outcome::ErrCancelled);
        }
    }
}

// ---------------------------------------------------------------------------------------- harness
struct Caller {
    key: u64,
    slot: Arc<Mutex<Option<Outcome>>>,
    entry: Arc<Mutex<Option<MEntry>>>,
    task: Option<tokio::task::JoinHandle<()>>,
    dropped: bool,
}

pub struct Run {
    pub outcomes: Vec<Outcome>,
    pub expected: Vec<Outcome>,
    pub problems: Vec<(String, String)>,
    pub origin_runs: u64,
    pub max_origin_inflight: i64,
    pub joined: bool,
    pub takeover: bool,
}

fn classify(e: &Error) -> Outcome {
    let s = format!("{e:?}");
    match e.kind() {
        ErrorKind::TaskCancelled => Outcome::ErrCancelled,
        ErrorKind::External if s.contains("origin-down") => Outcome::ErrOrigin,
        ErrorKind::Io if s.contains("disk-down") => Outcome::ErrDisk,
        k => Outcome::ErrOther(format!("{k:?}")),
    }
}

pub fn run_script(algo: Algo, script: &[Act]) -> Run {
    run_script_div(algo, script, 1)
}

/// `div` > 1: keys 0 and 1 share their 64-bit hash
pub fn run_script_div(algo: Algo, script: &[Act], div: u64) -> Run {
    let rt_call = tokio::runtime::Builder::new_current_thread().build().unwrap();
    let mut rt_fetch = Some(tokio::runtime::Builder::new_current_thread().build().unwrap());
    let spawner = Spawner::from(rt_fetch.as_ref().unwrap().handle().clone());
    let cache: MCache = CacheBuilder::new(1000)
        .with_shards(1)
        .with_eviction_config(AlgoCfg::default_for(algo).eviction_config())
        .with_hash_builder(DivHasher { div })
        .with_filter(|_: &u64, v: &Tv| !v.phantom)
        .build();
    let mut model = Model::default();
    let mut callers: Vec<Caller> = vec![];
    let mut gates: Vec<Gate> = vec![];
    let mut next_val = 100u64;
    let origin_inflight: BTreeMap<u64, (Arc<AtomicI64>, Arc<AtomicI64>)> =
        (0..4u64).map(|k| (k, (Arc::new(AtomicI64::new(0)), Arc::new(AtomicI64::new(0))))).collect();
    let lookup_inflight = (Arc::new(AtomicI64::new(0)), Arc::new(AtomicI64::new(0)));
    let mut epochs: BTreeMap<u64, u64> = BTreeMap::new();
    let mut problems: Vec<(String, String)> = vec![];
    let mut joined = false;
    let mut takeover = false;
    let origin_started_total = Arc::new(AtomicU64::new(0));

    let settle = |rt_fetch: &Option<tokio::runtime::Runtime>| {
        for _ in 0..4 {
            if let Some(rt) = rt_fetch.as_ref() {
                rt.block_on(async {
                    for _ in 0..4 {
                        tokio::task::yield_now().await;
                    }
                });
            }
            rt_call.block_on(async {
                for _ in 0..4 {
                    tokio::task::yield_now().await;
                }
            });
        }
    };

    for (step, act) in script.iter().enumerate() {
        // ArriveAndCancel = Arrive whose fetch task is never polled before the fetch runtime goes away
        let (act, cancel_before_poll) = match *act {
            Act::ArriveAndCancel { key, kind } => (Act::Arrive { key, kind }, true),
            a => (a, false),
        };
        let act = &act;
        match *act {
            Act::Arrive { key, kind } => {
                if model.flights.contains_key(&key) && !model.present.contains_key(&key) {
                    joined = true;
                }
                let mut mk_gate = |optional: bool, gates: &mut Vec<Gate>| {
                    let (tx, rx) = oneshot::channel::<GateMsg>();
                    let started = Arc::new(AtomicU64::new(0));
                    gates.push(Gate { key, optional, tx: Some(tx), started: started.clone(), zombie_epoch: 0 });
                    (rx, started)
                };
                let fo = if kind != Kind::MemFetch {
                    let (rx, started) = mk_gate(true, &mut gates);
                    let (inf, max) = (lookup_inflight.0.clone(), lookup_inflight.1.clone());
                    Some(Box::new(move |_: &mut ()| {
                        let fut = Tracked { inner: rx, started, inflight: inf, max_inflight: max, counted: false };
                        async move {
                            match fut.await {
                                Ok(GateMsg::Hit(v)) => Ok(Some(FetchTarget::Entry {
                                    value: Tv { key, id: v, w: 1, phantom: false },
                                    properties: CacheProperties::default(),
                                })),
                                Ok(GateMsg::Miss) => Ok(None),
                                Ok(GateMsg::Err(m)) => Err(Error::new(ErrorKind::Io, m)),
                                _ => Ok(None),
                            }
                        }
                        .boxed()
                    }) as OptionalFetchBuilder<u64, Tv, CacheProperties, ()>)
                } else {
                    None
                };
                let fr = if kind != Kind::Lookup {
                    let (rx, started) = mk_gate(false, &mut gates);
                    let (inf, max) = origin_inflight[&key].clone();
                    let total = origin_started_total.clone();
                    let cache2 = cache.clone();
                    Some(Box::new(move |_: &mut ()| {
                        total.fetch_add(1, Ordering::SeqCst);
                        let fut = Tracked { inner: rx, started, inflight: inf, max_inflight: max, counted: false };
                        async move {
                            match fut.await {
                                Ok(GateMsg::Ok(v)) => Ok(FetchTarget::Entry {
                                    value: Tv { key, id: v, w: 1, phantom: false },
                                    properties: CacheProperties::default(),
                                }),
                                Ok(GateMsg::InsertThenOk(old, new)) => {
                                    drop(cache2.insert(key, Tv { key, id: new, w: 1, phantom: false }));
                                    Ok(FetchTarget::Entry { value: Tv { key, id: old, w: 1, phantom: false }, properties: CacheProperties::default() })
                                }
                                Ok(GateMsg::InsertRemoveThenOk(old, new)) => {
                                    drop(cache2.insert(key, Tv { key, id: new, w: 1, phantom: false }));
                                    drop(cache2.remove(&key));
                                    Ok(FetchTarget::Entry { value: Tv { key, id: old, w: 1, phantom: false }, properties: CacheProperties::default() })
                                }
                                Ok(GateMsg::Err(m)) => Err(Error::new(ErrorKind::External, m)),
                                _ => Err(Error::new(ErrorKind::External, "gate dropped")),
                            }
                        }
                        .boxed()
                    }) as RequiredFetchBuilder<u64, Tv, CacheProperties, ()>)
                } else {
                    None
                };
                let g = cache.get_or_fetch_inner(&key, || fo, || fr, (), &spawner);
                let slot = Arc::new(Mutex::new(None));
                let entry = Arc::new(Mutex::new(None));
                let (s2, e2) = (slot.clone(), entry.clone());
                let mut g = Box::pin(g);
                let task = rt_call.spawn(async move {
                    let r = std::future::poll_fn(move |cx| g.as_mut().poll_inner(cx)).await;
                    let o = match r {
                        Ok(Some(e)) => {
                            let id = e.value().id;
                            let ok = *e.key() == key && e.value().key == key;
                            *e2.lock() = Some(e);
                            if ok { Outcome::Value(id) } else { Outcome::ErrOther("foreign entry".into()) }
                        }
                        Ok(None) => Outcome::NoValue,
                        Err(e) => classify(&e),
                    };
                    *s2.lock() = Some(o);
                });
                let c = model.arrive(key, kind);
                assert_eq!(c, callers.len());
                callers.push(Caller { key, slot, entry, task: Some(task), dropped: false });
                if cancel_before_poll {
                    drop(rt_fetch.take());
                    model.cancel_all();
                }
            }
            Act::OptHit { key } | Act::OptMiss { key } | Act::OptErr { key } => {
                let ep = *epochs.get(&key).unwrap_or(&0);
                if let Some(g) = gates.iter_mut().find(|g| {
                    g.key == key && g.optional && g.tx.is_some() && g.started.load(Ordering::SeqCst) == 1 && g.zombie_epoch == 0
                }) {
                    let _ = ep;
                    match act {
                        Act::OptHit { .. } => {
                            next_val += 1;
                            let _ = g.tx.take().unwrap().send(GateMsg::Hit(next_val));
                            model.optional_hit(key, next_val);
                        }
                        Act::OptMiss { .. } => {
                            let _ = g.tx.take().unwrap().send(GateMsg::Miss);
                            model.optional_done(key, false);
                        }
                        _ => {
                            let _ = g.tx.take().unwrap().send(GateMsg::Err("disk-down"));
                            model.optional_done(key, true);
                        }
                    }
                }
            }
            Act::ReqOk { key } | Act::ReqErr { key } => {
                if let Some(g) = gates.iter_mut().find(|g| {
                    g.key == key && !g.optional && g.tx.is_some() && g.started.load(Ordering::SeqCst) == 1 && g.zombie_epoch == 0
                }) {
                    if matches!(act, Act::ReqOk { .. }) {
                        next_val += 1;
                        let _ = g.tx.take().unwrap().send(GateMsg::Ok(next_val));
                        model.required_done(key, Some(next_val));
                    } else {
                        let _ = g.tx.take().unwrap().send(GateMsg::Err("origin-down"));
                        model.required_done(key, None);
                    }
                }
            }
            Act::ReqOkAfterInsert { key } => {
                if let Some(g) = gates.iter_mut().find(|g| {
                    g.key == key && !g.optional && g.tx.is_some() && g.started.load(Ordering::SeqCst) == 1 && g.zombie_epoch == 0
                }) {
                    next_val += 2;
                    let (old, new) = (next_val - 1, next_val);
                    takeover = true;
                    *epochs.entry(key).or_insert(0) += 1;
                    let _ = g.tx.take().unwrap().send(GateMsg::InsertThenOk(old, new));
                    // the insert takes the flight over: its waiters get the inserted value, the fetch's own result is dead
                    model.insert(key, new);
                }
            }
            Act::ReqOkAfterInsertRemove { key } => {
                if let Some(g) = gates.iter_mut().find(|g| {
                    g.key == key && !g.optional && g.tx.is_some() && g.started.load(Ordering::SeqCst) == 1 && g.zombie_epoch == 0
                }) {
                    next_val += 2;
                    let (old, new) = (next_val - 1, next_val);
                    takeover = true;
                    *epochs.entry(key).or_insert(0) += 1;
                    let _ = g.tx.take().unwrap().send(GateMsg::InsertRemoveThenOk(old, new));
                    model.insert(key, new);
                    model.remove(key);
                }
            }
            Act::InsertPhantom { key } => {
                next_val += 1;
                if model.flights.contains_key(&key) {
                    takeover = true;
                    for g in gates.iter_mut().filter(|g| g.key == key && g.tx.is_some() && g.started.load(Ordering::SeqCst) == 1) {
                        g.zombie_epoch = 1;
                    }
                }
                *epochs.entry(key).or_insert(0) += 1;
                let e = cache.insert(key, Tv { key, id: next_val, w: 1, phantom: true });
                drop(e);
                model.insert_phantom(key, next_val);
            }
            Act::Insert { key } => {
                next_val += 1;
                if model.flights.contains_key(&key) {
                    takeover = true;
                    // the superseded fetch's gates become zombies: resolving them later must change nothing
                    for g in gates.iter_mut().filter(|g| g.key == key && g.tx.is_some() && g.started.load(Ordering::SeqCst) == 1) {
                        g.zombie_epoch = 1;
                    }
                }
                *epochs.entry(key).or_insert(0) += 1;
                let e = cache.insert(key, Tv { key, id: next_val, w: 1, phantom: false });
                drop(e);
                model.insert(key, next_val);
            }
            Act::Remove { key } => {
                *epochs.entry(key).or_insert(0) += 1;
                cache.remove(&key);
                model.remove(key);
            }
            Act::DropCaller { key } => {
                if let Some((i, c)) = callers
                    .iter_mut()
                    .enumerate()
                    .find(|(i, c)| c.key == key && !c.dropped && c.slot.lock().is_none() && model.expect[*i] == Outcome::Pending)
                {
                    if let Some(t) = c.task.take() {
                        t.abort();
                    }
                    c.dropped = true;
                    model.expect[i] = Outcome::Dropped;
                }
            }
            Act::CancelFetchRuntime => {
                drop(rt_fetch.take());
                model.cancel_all();
            }
            Act::ArriveAndCancel { .. } => unreachable!(),
        }
        settle(&rt_fetch);
        // zombie gates: a superseded fetch task must notice and stop; release them so they cannot linger
        for g in gates.iter_mut().filter(|g| g.zombie_epoch == 1 && g.tx.is_some()) {
            // resolve with a value that must never become visible
            let msg = if g.optional { GateMsg::Hit(9_000_000 + step as u64) } else { GateMsg::Ok(9_000_000 + step as u64) };
            let _ = g.tx.take().unwrap().send(msg);
        }
        settle(&rt_fetch);
        // compare outcomes so far
        for (i, c) in callers.iter().enumerate() {
            let got = if c.dropped { Outcome::Dropped } else { c.slot.lock().clone().unwrap_or(Outcome::Pending) };
            if got != model.expect[i] && problems.is_empty() {
                problems.push((
                    format!("caller-outcome:got={}:want={}", tag(&got), tag(&model.expect[i])),
                    format!("after step {step} {act:?}: caller {i} (key {}) has {got:?}, the protocol gives {:?}", c.key, model.expect[i]),
                ));
            }
        }
        for (k, (_, max)) in &origin_inflight {
            if max.load(Ordering::SeqCst) > 1 && *epochs.get(k).unwrap_or(&0) == 0 && problems.is_empty() {
                problems.push((
                    "origin-concurrency".into(),
                    format!("after step {step} {act:?}: {} origin fetches of key {k} were in flight at once without any insert/remove of the key", max.load(Ordering::SeqCst)),
                ));
            }
        }
    }
    // release everything that is still gated (lookup -> miss, origin -> ok) and let the system go idle
    for _round in 0..4 {
        let mut any = false;
        for g in gates.iter_mut().filter(|g| g.tx.is_some() && g.started.load(Ordering::SeqCst) == 1) {
            any = true;
            if g.zombie_epoch == 1 {
                let _ = g.tx.take().unwrap().send(GateMsg::Miss);
                continue;
            }
            if g.optional {
                let _ = g.tx.take().unwrap().send(GateMsg::Miss);
                model.optional_done(g.key, false);
            } else {
                next_val += 1;
                let _ = g.tx.take().unwrap().send(GateMsg::Ok(next_val));
                model.required_done(g.key, Some(next_val));
            }
        }
        settle(&rt_fetch);
        if !any {
            break;
        }
    }
    let mut outcomes = vec![];
    for (i, c) in callers.iter().enumerate() {
        let got = if c.dropped { Outcome::Dropped } else { c.slot.lock().clone().unwrap_or(Outcome::Pending) };
        if got == Outcome::Pending && problems.is_empty() {
            problems.push((
                "caller-hangs".into(),
                format!("caller {i} (key {}) is still pending after every gate was released and both runtimes are idle (protocol gives {:?})", c.key, model.expect[i]),
            ));
        } else if got != model.expect[i] && problems.is_empty() {
            problems.push((
                format!("caller-outcome:got={}:want={}", tag(&got), tag(&model.expect[i])),
                format!("at the end: caller {i} (key {}) has {got:?}, the protocol gives {:?}", c.key, model.expect[i]),
            ));
        }
        outcomes.push(got);
    }
    // final content: what a lookup finds must be what the protocol says is cached
    for k in 0..4u64 {
        let got = cache.get(&k).map(|e| e.value().id);
        let want = model.present.get(&k).copied();
        if got != want && problems.is_empty() {
            let class = if want.is_some() && got.is_some() { "late-overwrite" } else if want.is_none() { "failed-or-cancelled-fetch-cached" } else { "lost" };
            problems.push((
                format!("final-content:{class}"),
                format!("key {k}: a lookup finds {got:?}, the protocol says {want:?} is cached"),
            ));
        }
    }
    let executed = origin_started_total.load(Ordering::SeqCst);
    if executed != model.origin_runs && problems.is_empty() && rt_fetch.is_some() {
        problems.push((
            format!("origin-executions:got={}:want={}", executed.min(9), model.origin_runs.min(9)),
            format!("{executed} origin fetches were started, the protocol needs {}", model.origin_runs),
        ));
    }
    let max_origin_inflight = origin_inflight.values().map(|(_, m)| m.load(Ordering::SeqCst)).max().unwrap_or(0);
    // drop entries before the runtimes
    for c in &callers {
        c.entry.lock().take();
    }
    drop(callers);
    drop(cache);
    drop(rt_fetch);
    Run { outcomes, expected: model.expect, problems, origin_runs: executed, max_origin_inflight, joined, takeover }
}

fn tag(o: &Outcome) -> &'static str {
    match o {
        Outcome::Pending => "pending",
        Outcome::Value(_) => "value",
        Outcome::NoValue => "none",
        Outcome::ErrOrigin => "origin-error",
        Outcome::ErrDisk => "disk-error",
        Outcome::ErrCancelled => "cancelled",
        Outcome::ErrOther(_) => "other-error",
        Outcome::Dropped => "dropped",
    }
}

fn alphabet(c11: bool) -> Vec<Act> {
    let key = 0u64;
    let mut a = vec![
        Act::Arrive { key, kind: Kind::Lookup },
        Act::Arrive { key, kind: Kind::Fetch },
        Act::Arrive { key, kind: Kind::MemFetch },
        Act::OptHit { key },
        Act::OptMiss { key },
        Act::OptErr { key },
        Act::ReqOk { key },
        Act::ReqErr { key },
        Act::Insert { key },
        Act::ReqOkAfterInsert { key },
        Act::ReqOkAfterInsertRemove { key },
        Act::InsertPhantom { key },
        Act::Remove { key },
        Act::DropCaller { key },
    ];
    if c11 {
        a.retain(|x| !matches!(x, Act::DropCaller { .. } | Act::OptErr { .. }));
    }
    a
}

fn judge(prop: &str, algo: Algo, script: &[Act], res: &mut ShardResult) {
    judge_div(prop, algo, script, 1, res)
}

fn judge_div(prop: &str, algo: Algo, script: &[Act], div: u64, res: &mut ShardResult) {
    let r = std::panic::catch_unwind(std::panic::AssertUnwindSafe(|| run_script_div(algo, script, div)));
    res.evaluations += 1;
    match r {
        Ok(run) => {
            res.count("callers", run.outcomes.len() as u64);
            res.count("origin_fetches_executed", run.origin_runs);
            for o in &run.outcomes {
                res.count(&format!("outcome_{}", tag(o)), 1);
            }
            let nontrivial = if prop == "C11" { run.takeover } else { run.joined };
            if nontrivial {
                res.nontrivial_hashes.insert(fnv(format!("{algo:?}{script:?}").as_bytes()));
                if res.samples.len() < 2 {
                    res.sample(json!({"algo":algo,"script":script,"outcomes":run.outcomes}));
                }
            }
            if run.joined {
                res.count("scripts_with_joined_caller", 1);
            }
            if run.takeover {
                res.count("scripts_with_insert_during_fetch", 1);
            }
            for (sig, detail) in run.problems.iter().take(1) {
                res.violate(
                    format!("{prop}:{sig}"),
                    format!("{detail} [{algo:?}]"),
                    json!({"check":"fetchseq","prop":prop,"algo":algo,"script":script,"div":div,"outcomes":run.outcomes,"expected":run.expected}),
                );
            }
        }
        Err(e) => {
            let msg = crate::panic_message(&e);
            res.violate(
                format!("{prop}:panic:{}", crate::normalise(&msg)),
                format!("panic: {msg} [{algo:?}]"),
                json!({"check":"fetchseq","prop":prop,"algo":algo,"script":script}),
            );
        }
    }
}

pub fn run(prop: &str, seed: u64, tier: &str, shard: usize, nshards: usize) -> ShardResult {
    let mut res = ShardResult::new(&format!("fetchseq-{prop}"), seed);
    res.exhaustive = true;
    let c11 = prop == "C11";
    let alpha = alphabet(c11);
    let depth = if tier == "thorough" { 6 } else { 5 };
    // lock modes of the lookup path: Fifo (noop), Sieve (immutable), Lru (mutable)
    let algos = [Algo::Fifo, Algo::Sieve, Algo::Lru];
    let n = alpha.len();
    let total = n.pow(depth as u32);
    let mut gi = 0usize;
    for algo in algos {
        if prop == "C17" {
            break;
        }
        res.count("exhaustive_space", total as u64);
        for code in 0..total {
            gi += 1;
            if gi % nshards != shard {
                continue;
            }
            let mut c = code;
            let mut script = Vec::with_capacity(depth + 1);
            for _ in 0..depth {
                script.push(alpha[c % n]);
                c /= n;
            }
            // scripts that start with a resolution or end with an arrival only add nothing new: keep them, they are cheap
            if c11 && !script.iter().any(|a| matches!(a, Act::Insert { .. } | Act::ReqOkAfterInsert { .. } | Act::ReqOkAfterInsertRemove { .. } | Act::InsertPhantom { .. })) {
                continue;
            }
            // every 7th script additionally ends by cancelling the fetch runtime, every 11th by an arrival whose fetch task
            // is dropped before its first poll
            if !c11 && code % 7 == 0 {
                script.push(Act::CancelFetchRuntime);
            } else if !c11 && code % 11 == 0 {
                script.push(Act::ArriveAndCancel { key: 0, kind: [Kind::Lookup, Kind::Fetch, Kind::MemFetch][code % 3] });
            }
            judge(prop, algo, &script, &mut res);
            res.count("exhaustive_cases", 1);
        }
    }
    // random longer scripts over two keys and all algorithms
    let mut rng = Rng::derive(seed, 0xFE7C + shard as u64);
    let total_random = if tier == "thorough" { 300_000 } else { 40_000 };
    for i in 0..total_random / nshards.max(1) {
        let algo = crate::mem::ALGOS[i % 5];
        let len = 6 + rng.usize(14);
        let mut script: Vec<Act> = (0..len)
            .map(|_| {
                let key = rng.below(2);
                match *rng.pick(&alpha) {
                    Act::Arrive { kind, .. } => Act::Arrive { key, kind },
                    Act::OptHit { .. } => Act::OptHit { key },
                    Act::OptMiss { .. } => Act::OptMiss { key },
                    Act::OptErr { .. } => Act::OptErr { key },
                    Act::ReqOk { .. } => Act::ReqOk { key },
                    Act::ReqErr { .. } => Act::ReqErr { key },
                    Act::Insert { .. } => Act::Insert { key },
                    Act::ReqOkAfterInsert { .. } => Act::ReqOkAfterInsert { key },
                    Act::ReqOkAfterInsertRemove { .. } => Act::ReqOkAfterInsertRemove { key },
                    Act::InsertPhantom { .. } => Act::InsertPhantom { key },
                    Act::Remove { .. } => Act::Remove { key },
                    Act::DropCaller { .. } => Act::DropCaller { key },
                    a => a,
                }
            })
            .collect();
        if c11 && !script.iter().any(|a| matches!(a, Act::Insert { .. } | Act::ReqOkAfterInsert { .. } | Act::ReqOkAfterInsertRemove { .. } | Act::InsertPhantom { .. })) {
            script.push(Act::Insert { key: 0 });
            script.push(Act::Arrive { key: 0, kind: Kind::MemFetch });
        }
        if !c11 && rng.chance(1, 5) {
            script.push(Act::CancelFetchRuntime);
        } else if !c11 && rng.chance(1, 6) {
            script.push(Act::ArriveAndCancel { key: rng.below(2), kind: *rng.pick(&[Kind::Lookup, Kind::Fetch, Kind::MemFetch]) });
        }
        // C17: keys 0 and 1 always share their full 64-bit hash
        let div = if prop == "C17" || i % 3 == 0 { 2 } else { 1 };
        if div == 2 {
            res.count("random_cases_with_colliding_keys", 1);
        }
        judge_div(prop, algo, &script, div, &mut res);
        res.count("random_cases", 1);
    }
    res
}

pub fn replay(prop: &str, algo: Algo, script: Vec<Act>) -> ShardResult {
    let mut res = ShardResult::new("fetchseq-replay", 0);
    judge(prop, algo, &script, &mut res);
    res
}
