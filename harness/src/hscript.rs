//! Single-client scripted histories against the real hybrid cache, with an exact per-key oracle.
//! Used by C01 (staleness / foreign values), C17 (hash collisions), C12 (write accounting) and
//! C15 (close / reopen).
use std::collections::BTreeMap;

use foyer::{Location, RecoverMode, Source};
use serde::{Deserialize, Serialize};

use crate::{
    hyb::{self, Controls, DirGuard, HCache, HCfg, Policy, Seen},
    io::WriteRec,
    rng::Rng,
    value::{self, Stamp},
};

#[derive(Clone, Copy, Debug, PartialEq, Eq, Serialize, Deserialize, Hash)]
pub enum Loc {
    Default,
    InMem,
    OnDisk,
}

impl Loc {
    pub fn to_foyer(self) -> Location {
        match self {
            Loc::Default => Location::Default,
            Loc::InMem => Location::InMem,
            Loc::OnDisk => Location::OnDisk,
        }
    }
}

#[derive(Clone, Debug, PartialEq, Eq, Serialize, Deserialize, Hash)]
pub enum HOp {
    Insert { k: u64, size: usize, loc: Loc },
    /// `storage_writer(k).insert(..)` (disk-only insert), optionally forced
    WriterInsert { k: u64, size: usize, force: bool },
    Remove { k: u64 },
    Get { k: u64 },
    GetOrFetch { k: u64, size: usize },
    Contains { k: u64 },
    /// `storage().wait()` (all gates are released first)
    Wait,
    HoldFlush,
    ReleaseFlush,
    HoldWrites,
    /// let the currently held device writes complete but keep holding later ones
    ReleaseHeldKeepHolding,
    ReleaseWrites,
    /// `memory().evict_all()`
    EvictMem,
    /// `memory().resize(1)` followed by `memory().resize(<configured capacity>)`: everything is evicted by the shrink
    ShrinkMem,
    Clear,
    /// `clear()` called while device writes are held at the io gate (released 30 ms later by another task): entries are
    /// queued / in flight in the flushers when the clear starts
    ClearWithWritesInFlight,
    /// graceful close, then reopen on the same directory
    CloseReopen,
    /// let background tasks run until the device is quiet
    Settle,
}

#[derive(Clone, Debug, Serialize, Deserialize)]
pub struct Observed {
    pub op: HOp,
    pub seen: Option<Seen>,
    pub source: Option<String>,
    pub origin_ran: bool,
    pub writes_before: usize,
    pub writes_after: usize,
    pub in_memory_after: Option<bool>,
    /// number of block-clean writes (zero page at block offset 0) issued so far
    pub cleans_after: usize,
}

pub struct Exec {
    pub cfg: HCfg,
    pub ctl: Controls,
    pub dir: DirGuard,
    pub cache: Option<HCache>,
    pub versions: BTreeMap<u64, u32>,
    pub reopen_count: u32,
    pub flush_held: bool,
    pub writes_held: bool,
}

impl Exec {
    pub async fn new(cfg: HCfg) -> foyer::Result<Self> {
        let dir = DirGuard(hyb::scratch_dir("hs"));
        let ctl = Controls::new();
        let cache = hyb::open(&cfg, &dir.0, &ctl, RecoverMode::Quiet).await?;
        Ok(Exec { cfg, ctl, dir, cache: Some(cache), versions: BTreeMap::new(), reopen_count: 0, flush_held: false, writes_held: false })
    }

    pub fn cache(&self) -> &HCache {
        self.cache.as_ref().unwrap()
    }

    pub fn next_stamp(&mut self, k: u64) -> Stamp {
        let v = self.versions.entry(k).or_insert(0);
        *v += 1;
        Stamp { key: k, writer: self.reopen_count, version: *v }
    }

    pub async fn settle(&self) {
        // wait until no io is in flight and none was issued for a few consecutive polls
        let mut stable = 0;
        let mut last = self.ctl.io.issued.load(std::sync::atomic::Ordering::SeqCst);
        for _ in 0..400 {
            tokio::time::sleep(std::time::Duration::from_millis(1)).await;
            let now = self.ctl.io.issued.load(std::sync::atomic::Ordering::SeqCst);
            let held = self.ctl.io.held_writes().len() as u64;
            let inflight = self.ctl.io.inflight.load(std::sync::atomic::Ordering::SeqCst);
            if now == last && inflight <= held {
                stable += 1;
                if stable >= 4 {
                    break;
                }
            } else {
                stable = 0;
                last = now;
            }
        }
    }

    pub fn release_all(&mut self) {
        self.ctl.flush_switch.off();
        self.ctl.io.release_writes();
        self.ctl.io.release_reads();
        self.ctl.load_holder.unhold();
        self.flush_held = false;
        self.writes_held = false;
    }

    pub async fn step(&mut self, op: &HOp) -> Observed {
        let writes_before = self.ctl.io.write_count();
        let mut o = Observed {
            op: op.clone(),
            seen: None,
            source: None,
            origin_ran: false,
            writes_before,
            writes_after: 0,
            in_memory_after: None,
            cleans_after: 0,
        };
        match op.clone() {
            HOp::Insert { k, size, loc } => {
                let s = self.next_stamp(k);
                let v = value::make(s, size, s.version % 2 == 0);
                let e = if loc == Loc::Default {
                    self.cache().insert(k, v)
                } else {
                    self.cache().insert_with_properties(k, v, hyb::props(loc.to_foyer()))
                };
                drop(e);
                o.seen = Some(Seen::Hit(s));
            }
            HOp::WriterInsert { k, size, force } => {
                let s = self.next_stamp(k);
                let v = value::make(s, size, false);
                let w = self.cache().storage_writer(k);
                let w = if force { w.force() } else { w };
                let r = w.insert(v);
                o.seen = Some(if r.is_some() { Seen::Hit(s) } else { Seen::Miss });
                drop(r);
            }
            HOp::Remove { k } => self.cache().remove(&k),
            HOp::Get { k } => {
                let r = self.cache().get(&k).await;
                let mut bg = false;
                if let Ok(Some(e)) = &r {
                    o.source = Some(format!("{:?}", e.source()));
                    bg = e.source() != Source::Memory;
                    if bg {
                        wait_sole_owner(e).await;
                    }
                }
                o.seen = Some(hyb::see(k, r));
                if bg {
                    // the fetch task finishes its post-insert work (listener, pipe hand-off) after answering the caller
                    self.settle().await;
                }
            }
            HOp::GetOrFetch { k, size } => {
                // the origin returns the current source-of-truth value: a fresh version created when it runs
                let ran = std::sync::Arc::new(std::sync::atomic::AtomicBool::new(false));
                let ran2 = ran.clone();
                let s = self.next_stamp(k);
                let v = value::make(s, size, false);
                let r = self
                    .cache()
                    .get_or_fetch(&k, move || async move {
                        ran2.store(true, std::sync::atomic::Ordering::SeqCst);
                        Ok::<_, anyhow::Error>(v)
                    })
                    .await;
                o.origin_ran = ran.load(std::sync::atomic::Ordering::SeqCst);
                if !o.origin_ran {
                    // version not consumed
                    *self.versions.get_mut(&k).unwrap() -= 1;
                }
                match r {
                    Ok(e) => {
                        o.source = Some(format!("{:?}", e.source()));
                        o.seen = Some(hyb::see_entry(k, &e));
                        if e.source() != Source::Memory {
                            wait_sole_owner(&e).await;
                        }
                    }
                    Err(e) => o.seen = Some(Seen::Error(format!("{:?}", e.kind()))),
                }
            }
            HOp::Contains { k } => {
                let c = self.cache().contains(&k);
                o.seen = Some(if c { Seen::Corrupt("contains=true".into()) } else { Seen::Miss });
            }
            HOp::Wait => {
                self.release_all();
                self.cache().storage().wait().await;
            }
            HOp::HoldFlush => {
                self.ctl.flush_switch.on();
                self.flush_held = true;
            }
            HOp::ReleaseFlush => {
                self.ctl.flush_switch.off();
                self.flush_held = false;
                self.settle().await;
            }
            HOp::HoldWrites => {
                self.ctl.io.hold_writes();
                self.writes_held = true;
            }
            HOp::ReleaseHeldKeepHolding => {
                for s in self.ctl.io.held_writes() {
                    self.ctl.io.release_write(s);
                    // a data write is followed by its index write: let it be issued and release it too
                    self.settle().await;
                }
                // release the follow-up (index page) writes of the same batch, but nothing issued afterwards
                self.settle().await;
            }
            HOp::ReleaseWrites => {
                self.ctl.io.release_writes();
                self.writes_held = false;
                self.settle().await;
            }
            HOp::EvictMem => {
                self.cache().memory().evict_all();
                self.settle().await;
            }
            HOp::ShrinkMem => {
                let _ = self.cache().memory().resize(1);
                self.settle().await;
                let _ = self.cache().memory().resize(self.cfg.mem_capacity);
                self.settle().await;
            }
            HOp::Clear => {
                self.release_all();
                let _ = self.cache().clear().await;
            }
            HOp::ClearWithWritesInFlight => {
                self.ctl.flush_switch.off();
                self.flush_held = false;
                let io = self.ctl.io.clone();
                let releaser = tokio::spawn(async move {
                    tokio::time::sleep(std::time::Duration::from_millis(30)).await;
                    io.release_writes();
                });
                let _ = self.cache().clear().await;
                let _ = releaser.await;
                self.release_all();
                self.settle().await;
            }
            HOp::CloseReopen => {
                self.release_all();
                let c = self.cache.take().unwrap();
                let _ = c.close().await;
                drop(c);
                self.settle().await;
                self.reopen_count += 1;
                let c = hyb::open(&self.cfg, &self.dir.0, &self.ctl, RecoverMode::Quiet).await;
                match c {
                    Ok(c) => self.cache = Some(c),
                    Err(e) => {
                        o.seen = Some(Seen::Error(format!("reopen failed: {e}")));
                    }
                }
            }
            HOp::Settle => self.settle().await,
        }
        o.writes_after = self.ctl.io.write_count();
        o.cleans_after = self
            .ctl
            .io
            .writes
            .lock()
            .iter()
            .filter(|w| w.offset == 0 && w.len == hyb::PAGE && w.len == w.data.len() && w.data.iter().all(|b| *b == 0) && w.partition as usize >= self.cfg.tombstone as usize)
            .count();
        if let (Some(c), Some(k)) = (self.cache.as_ref(), key_of(op)) {
            o.in_memory_after = Some(c.memory().contains(&k));
        }
        o
    }

    pub async fn finish(&mut self) {
        self.release_all();
        if let Some(c) = self.cache.take() {
            let _ = c.close().await;
        }
    }
}

/// The fetch task that served a lookup keeps its own handle of the entry for a moment after answering the caller (it is
/// dropped when the task finishes).  A handle obtained by lookup pins an LRU entry, so "evict everything" right after the
/// lookup would legitimately skip it: wait until the caller's handle is the only one (bounded, 2 s).
pub async fn wait_sole_owner(e: &hyb::HEntry) {
    for _ in 0..2000 {
        if e.refs() <= 1 {
            return;
        }
        tokio::time::sleep(std::time::Duration::from_millis(1)).await;
    }
}

pub fn key_of(op: &HOp) -> Option<u64> {
    match op {
        HOp::Insert { k, .. }
        | HOp::WriterInsert { k, .. }
        | HOp::Remove { k }
        | HOp::Get { k }
        | HOp::GetOrFetch { k, .. }
        | HOp::Contains { k } => Some(*k),
        _ => None,
    }
}

// ------------------------------------------------------------------------------------------ oracle
#[derive(Clone, Debug, Default)]
pub struct KeyState {
    /// value of the most recent completed insert not followed by a completed remove / clear
    pub current: Option<Stamp>,
    /// the last update was a remove (not a clear) - needed for the tombstone-off reopen exclusion
    pub removed: bool,
    /// after a reopen without tombstone log a removed key may legitimately reappear with any earlier version
    pub unjudged_until_insert: bool,
    /// after a close that does not flush, memory-only versions are lost: any earlier version is acceptable
    pub any_earlier_ok: bool,
    /// the current version is larger than a block can hold (it can never be on disk)
    pub oversize: bool,
    /// the current version is disk-only (advised on-disk / storage-writer insert)
    pub disk_only: bool,
    /// a lookup returned the disk-only current version since it was inserted
    pub looked_up: bool,
    /// the key was removed after such a lookup: a late handle drop may re-offer the entry to the disk tier
    pub requeue_race: bool,
    /// block cleans / reopens seen when the current version was written
    pub cleans_at_write: usize,
    pub reopens_at_write: u32,
    /// disk-only versions of the key that a lookup has returned (each may be re-offered to the disk tier by a late handle drop)
    pub looked_up_disk_only: Vec<Stamp>,
    /// the key was cleared (destroy) and the store reopened since
    pub cleared: bool,
    pub cleared_then_reopened: bool,
}

#[derive(Default)]
pub struct Oracle {
    pub reopens: u32,
    /// key and source of the previous step if it was a lookup that was served by disk / origin
    pub prev_bg_insert: Option<u64>,
    pub bg_insert_step: Option<(usize, u64)>,
    pub keys: BTreeMap<u64, KeyState>,
    pub findings: Vec<(String, String, usize)>,
    pub hits_by_source: BTreeMap<String, u64>,
    pub judged_lookups: u64,
    pub unjudged_lookups: u64,
    pub window_classes: BTreeMap<String, u64>,
}

impl Oracle {
    pub fn step(&mut self, i: usize, cfg: &HCfg, o: &Observed, exec_flags: (bool, bool)) {
        let prev_bg_insert = match self.bg_insert_step {
            Some((at, k)) if i <= at + 4 => Some(k),
            _ => None,
        };
        if let (HOp::Get { k } | HOp::GetOrFetch { k, .. }, Some(src)) = (&o.op, &o.source) {
            if src == "Disk" || src == "Outer" {
                self.bg_insert_step = Some((i, *k));
            }
        }
        match &o.op {
            HOp::Insert { k, size, loc } => {
                if let Some(Seen::Hit(s)) = &o.seen {
                    let st = self.keys.entry(*k).or_default();
                    st.current = Some(*s);
                    st.removed = false;
                    st.unjudged_until_insert = false;
                    st.any_earlier_ok = false;
                    st.oversize = (*size).max(crate::value::MIN_LEN) + 64 > cfg.max_entry_size();
                    st.requeue_race = st.disk_only && st.looked_up;
                    st.disk_only = *loc == Loc::OnDisk;
                    st.looked_up = false;
                    st.cleans_at_write = o.cleans_after;
                    st.reopens_at_write = self.reopens;
                    st.cleared = false;
                    st.cleared_then_reopened = false;
                }
            }
            HOp::WriterInsert { k, size, .. } => {
                if let Some(Seen::Hit(s)) = &o.seen {
                    let st = self.keys.entry(*k).or_default();
                    st.current = Some(*s);
                    st.removed = false;
                    st.unjudged_until_insert = false;
                    st.any_earlier_ok = false;
                    st.oversize = (*size).max(crate::value::MIN_LEN) + 64 > cfg.max_entry_size();
                    st.requeue_race = st.disk_only && st.looked_up;
                    st.disk_only = true;
                    st.looked_up = false;
                    st.cleans_at_write = o.cleans_after;
                    st.reopens_at_write = self.reopens;
                    st.cleared = false;
                    st.cleared_then_reopened = false;
                }
            }
            HOp::Remove { k } => {
                let st = self.keys.entry(*k).or_default();
                st.current = None;
                st.removed = true;
                if st.disk_only && st.looked_up {
                    st.requeue_race = true;
                }
            }
            HOp::Clear | HOp::ClearWithWritesInFlight => {
                for st in self.keys.values_mut() {
                    st.current = None;
                    st.removed = false;
                    st.unjudged_until_insert = false;
                    st.cleared = true;
                }
            }
            HOp::CloseReopen => {
                if let Some(Seen::Error(e)) = &o.seen {
                    // running out of file descriptors is a harness resource problem, never a verdict
                    if !e.contains("os error 24") {
                        self.findings.push(("reopen-failed".into(), e.clone(), i));
                    }
                }
                self.reopens += 1;
                for st in self.keys.values_mut() {
                    if st.cleared {
                        st.cleared_then_reopened = true;
                    }
                    // without the tombstone log deletes (explicit, or implied by a version that cannot be
                    // stored) do not survive a reopen: documented, not judged
                    if !cfg.tombstone && (st.removed || st.oversize) {
                        st.unjudged_until_insert = true;
                    }
                    if !cfg.flush_on_close {
                        st.any_earlier_ok = true;
                    }
                }
            }
            HOp::Get { k } | HOp::GetOrFetch { k, .. } => {
                let st = self.keys.entry(*k).or_default().clone();
                let mut expected = st.current;
                if let (HOp::GetOrFetch { .. }, true, Some(Seen::Hit(s))) = (&o.op, o.origin_ran, &o.seen) {
                    // the origin ran: it produced a fresh version of the source of truth (an insert at fetch time)
                    if s.key == *k {
                        let reopens = self.reopens;
                        let ks = self.keys.entry(*k).or_default();
                        ks.current = Some(*s);
                        ks.removed = false;
                        ks.unjudged_until_insert = false;
                        ks.any_earlier_ok = false;
                        if let HOp::GetOrFetch { size, .. } = &o.op {
                            ks.oversize = (*size).max(crate::value::MIN_LEN) + 64 > cfg.max_entry_size();
                        }
                        ks.requeue_race = ks.disk_only && ks.looked_up;
                        ks.disk_only = false;
                        ks.looked_up = false;
                        ks.cleans_at_write = o.cleans_after;
                        ks.reopens_at_write = reopens;
                        ks.cleared = false;
                        ks.cleared_then_reopened = false;
                        expected = ks.current;
                    }
                }
                let src = o.source.clone().unwrap_or_else(|| "-".into());
                match o.seen.as_ref().unwrap() {
                    Seen::Miss => {}
                    Seen::Error(e) => {
                        if matches!(o.op, HOp::GetOrFetch { .. }) || e != "Io" {
                            self.findings.push((format!("lookup-error:{e}"), format!("{:?} failed with {e}", o.op), i));
                        }
                    }
                    Seen::Corrupt(why) => {
                        self.findings.push((
                            format!("foreign-or-corrupt:src={src}"),
                            format!("{:?} returned bytes that are not a value of this key: {why}", o.op),
                            i,
                        ));
                    }
                    Seen::Hit(s) => {
                        *self.hits_by_source.entry(src.clone()).or_insert(0) += 1;
                        let window = format!(
                            "src={src}{}{}",
                            if exec_flags.0 { "+flush-held" } else { "" },
                            if exec_flags.1 { "+writes-held" } else { "" }
                        );
                        *self.window_classes.entry(window).or_insert(0) += 1;
                        if s.key != *k {
                            self.findings.push((
                                format!("foreign:src={src}"),
                                format!("{:?} returned a value written for key {} ({s:?})", o.op, s.key),
                                i,
                            ));
                        } else if st.unjudged_until_insert || st.any_earlier_ok {
                            self.unjudged_lookups += 1;
                        } else {
                            self.judged_lookups += 1;
                            match expected {
                                Some(e) if e == *s => {
                                    let ks = self.keys.entry(*k).or_default();
                                    if ks.disk_only {
                                        ks.looked_up = true;
                                        if !ks.looked_up_disk_only.contains(s) {
                                            ks.looked_up_disk_only.push(*s);
                                        }
                                    }
                                }
                                Some(e) if self.reopens > st.reopens_at_write && o.cleans_after > st.cleans_at_write && s.writer < e.writer => {
                                    self.findings.push((
                                        "stale-old:older-copy-resurfaced-after-reclaim+reopen".to_string(),
                                        format!("{:?} returned {s:?} (written before an earlier restart); the newest version {e:?} had reached the disk, its block was reclaimed, and after another reopen recovery re-indexed the older copy", o.op),
                                        i,
                                    ))
                                }
                                Some(e) if st.requeue_race || st.looked_up_disk_only.contains(s) => self.findings.push((
                                    "stale-old:disk-only-entry-requeued-after-lookup".to_string(),
                                    format!("{:?} returned {s:?} instead of {e:?}: the older disk-only version had been looked up while queued; a late handle drop re-offered it to the disk tier after the newer insert", o.op),
                                    i,
                                )),
                                Some(e)
                                    if cfg.policy == Policy::WriteOnEviction
                                        && src == "Disk"
                                        && prev_bg_insert.is_some()
                                        && prev_bg_insert != Some(*k) =>
                                {
                                    self.findings.push((
                                        "stale-old:evicted-newest-version-in-limbo-before-write-queue".to_string(),
                                        format!("{:?} returned {s:?} while the newest version {e:?} had just been evicted from memory by the background insert of the previous lookup's result and had not yet been handed to the disk write queue (waiters are notified before evicted entries are piped)", o.op),
                                        i,
                                    ))
                                }
                                Some(e) => self.findings.push((
                                    format!("stale-old:src={src}"),
                                    format!("{:?} returned {s:?} but the most recent completed insert is {e:?}", o.op),
                                    i,
                                )),
                                None if st.cleared_then_reopened => self.findings.push((
                                    "stale-removed:cleared-entry-back-after-reopen".to_string(),
                                    format!("{:?} returned {s:?}: the entry was cleared (destroy) earlier, yet it is recovered after a later close+reopen", o.op),
                                    i,
                                )),
                                None if st.requeue_race || st.looked_up_disk_only.contains(s) => self.findings.push((
                                    "stale-removed:disk-only-entry-requeued-after-lookup".to_string(),
                                    format!("{:?} returned {s:?}: a disk-only entry that was looked up and then removed came back (a late handle drop re-offered it to the disk tier)", o.op),
                                    i,
                                )),
                                None => self.findings.push((
                                    format!("stale-removed:src={src}"),
                                    format!("{:?} returned {s:?} although the key was removed/cleared and not inserted since", o.op),
                                    i,
                                )),
                            }
                        }
                    }
                }
            }
            _ => {}
        }
    }
}

pub fn last_write_is_entry_payload(w: &WriteRec) -> bool {
    w.len > 0
}

// -------------------------------------------------------------------------------------- generators
pub struct Gen {
    pub keys: Vec<u64>,
    pub sizes: Vec<usize>,
    pub locs: BTreeMap<u64, Loc>,
    pub allow_reopen: bool,
    pub allow_clear: bool,
    pub allow_writer: bool,
}

impl Gen {
    pub fn size(&self, rng: &mut Rng) -> usize {
        *rng.pick(&self.sizes)
    }
    pub fn loc(&self, k: u64) -> Loc {
        *self.locs.get(&k).unwrap_or(&Loc::Default)
    }

    /// gadgets walk the windows the property talks about
    pub fn gadget(&self, rng: &mut Rng) -> Vec<HOp> {
        let k = *rng.pick(&self.keys);
        let k2 = *rng.pick(&self.keys);
        let ins = |g: &Gen, rng: &mut Rng, k: u64| HOp::Insert { k, size: g.size(rng), loc: g.loc(k) };
        match rng.below(13) {
            // entry only in the write queue (flush held): overwrite / remove, then look up
            0 => vec![
                HOp::HoldFlush,
                ins(self, rng, k),
                HOp::EvictMem,
                if rng.chance(1, 2) { ins(self, rng, k) } else { HOp::Remove { k } },
                HOp::EvictMem,
                HOp::Get { k },
                HOp::ReleaseFlush,
                HOp::Get { k },
                HOp::Wait,
                HOp::EvictMem,
                HOp::Get { k },
            ],
            // batch N in flight on the device while batch N+1 is queued
            1 => vec![
                ins(self, rng, k),
                HOp::HoldWrites,
                HOp::EvictMem,
                ins(self, rng, k),
                HOp::EvictMem,
                HOp::ReleaseHeldKeepHolding,
                HOp::EvictMem,
                HOp::Get { k },
                HOp::ReleaseWrites,
                HOp::Wait,
                HOp::EvictMem,
                HOp::Get { k },
            ],
            // older copy on disk, newer version oversize / shed
            2 => vec![
                ins(self, rng, k),
                HOp::EvictMem,
                HOp::Wait,
                HOp::Insert { k, size: *self.sizes.iter().max().unwrap(), loc: self.loc(k) },
                HOp::EvictMem,
                HOp::Wait,
                HOp::Get { k },
            ],
            // remove while the older copy is on disk / in the queue
            3 => vec![
                ins(self, rng, k),
                HOp::EvictMem,
                if rng.chance(1, 2) { HOp::Wait } else { HOp::Settle },
                HOp::Remove { k },
                HOp::Get { k },
                HOp::Wait,
                HOp::Get { k },
            ],
            // reopen
            4 if self.allow_reopen => vec![ins(self, rng, k), ins(self, rng, k2), HOp::CloseReopen, HOp::Get { k }, HOp::Get { k: k2 }],
            5 if self.allow_reopen => {
                vec![ins(self, rng, k), HOp::EvictMem, HOp::Wait, HOp::Remove { k }, HOp::Wait, HOp::CloseReopen, HOp::Get { k }]
            }
            6 if self.allow_clear => vec![ins(self, rng, k), HOp::EvictMem, HOp::Wait, HOp::Clear, HOp::Get { k }, HOp::Get { k: k2 }],
            7 if self.allow_writer => vec![
                ins(self, rng, k),
                HOp::WriterInsert { k, size: self.size(rng), force: rng.chance(1, 2) },
                HOp::Get { k },
                HOp::Wait,
                HOp::Get { k },
            ],
            8 => vec![HOp::GetOrFetch { k, size: self.size(rng) }, HOp::EvictMem, HOp::Wait, HOp::Get { k }, HOp::GetOrFetch { k, size: self.size(rng) }],
            9 => vec![
                HOp::HoldFlush,
                ins(self, rng, k),
                HOp::EvictMem,
                HOp::GetOrFetch { k, size: self.size(rng) },
                HOp::Remove { k },
                HOp::GetOrFetch { k, size: self.size(rng) },
                HOp::ReleaseFlush,
            ],
            // clear() while inserts are still queued / in flight in the flushers
            11 if self.allow_clear => vec![
                ins(self, rng, k),
                HOp::HoldWrites,
                ins(self, rng, k2),
                ins(self, rng, k),
                HOp::EvictMem,
                HOp::ClearWithWritesInFlight,
                HOp::Get { k },
                HOp::Get { k: k2 },
                HOp::Wait,
                HOp::EvictMem,
                HOp::Get { k },
                HOp::Get { k: k2 },
            ],
            // one key on disk, another one only in the write queue (matters when the two collide on the hash)
            10 if k != k2 => vec![
                ins(self, rng, k),
                HOp::EvictMem,
                HOp::Wait,
                HOp::HoldFlush,
                ins(self, rng, k2),
                HOp::EvictMem,
                HOp::Get { k },
                HOp::Get { k: k2 },
                HOp::ReleaseFlush,
                HOp::Get { k },
                HOp::Get { k: k2 },
            ],
            _ => vec![ins(self, rng, k), HOp::Get { k: k2 }, HOp::EvictMem, HOp::Get { k }],
        }
    }

    pub fn script(&self, rng: &mut Rng, gadgets: usize) -> Vec<HOp> {
        let mut s = vec![];
        for _ in 0..gadgets {
            s.extend(self.gadget(rng));
            // filler
            for _ in 0..rng.usize(3) {
                let k = *rng.pick(&self.keys);
                s.push(match rng.below(5) {
                    0 => HOp::Insert { k, size: self.size(rng), loc: self.loc(k) },
                    1 => HOp::Get { k },
                    2 => HOp::EvictMem,
                    3 => HOp::Settle,
                    _ => HOp::Get { k },
                });
            }
        }
        // a key keeps one advice class for the whole run: in-memory-only keys never take a disk-advised path
        for op in s.iter_mut() {
            if let HOp::WriterInsert { k, .. } | HOp::GetOrFetch { k, .. } = op {
                if self.loc(*k) == Loc::InMem {
                    *op = HOp::Get { k: *k };
                }
            }
        }
        s.push(HOp::Wait);
        for k in &self.keys {
            s.push(HOp::Get { k: *k });
        }
        s
    }
}

pub fn policy_name(p: Policy) -> &'static str {
    match p {
        Policy::WriteOnEviction => "woe",
        Policy::WriteOnInsertion => "woi",
    }
}
