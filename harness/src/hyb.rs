//! Hybrid cache harness: builds the real `HybridCache` on a real `FsDevice` directory behind the
//! recording io engine, with all the gates the workloads can control.
use std::{path::PathBuf, sync::Arc};

use foyer::{
    BlockEngineConfig, Compression, DeviceBuilder, Event, EventListener, FifoPicker, FsDeviceBuilder, HybridCache,
    HybridCacheBuilder, HybridCacheEntry, HybridCachePolicy, HybridCacheProperties, InvalidRatioPicker, Location,
    RecoverMode, StorageFilter, StorageFilterCondition,
};
use foyer_storage::test_utils::{Holder, LoadThrottleSwitch, Switch};
use parking_lot::Mutex;
use serde::{Deserialize, Serialize};

use crate::{
    io::{IoCtl, RecIoConfig},
    mem::{AlgoCfg, DivHasher},
    value::{self, Stamp},
};

pub type HCache = HybridCache<u64, Vec<u8>, DivHasher>;
pub type HEntry = HybridCacheEntry<u64, Vec<u8>, DivHasher>;

pub const PAGE: usize = 4096;

#[derive(Clone, Copy, Debug, PartialEq, Eq, Serialize, Deserialize, Hash)]
pub enum Policy {
    WriteOnEviction,
    WriteOnInsertion,
}

#[derive(Clone, Copy, Debug, PartialEq, Eq, Serialize, Deserialize, Hash)]
pub enum Comp {
    None,
    Zstd,
    Lz4,
}

impl Comp {
    pub fn to_foyer(self) -> Compression {
        match self {
            Comp::None => Compression::None,
            Comp::Zstd => Compression::Zstd,
            Comp::Lz4 => Compression::Lz4,
        }
    }
}

#[derive(Clone, Debug, Serialize, Deserialize)]
pub struct HCfg {
    pub algo: AlgoCfg,
    /// memory capacity in bytes of value length (weighter = value.len())
    pub mem_capacity: usize,
    pub mem_shards: usize,
    pub policy: Policy,
    pub flush_on_close: bool,
    pub block_size: usize,
    pub blocks: usize,
    pub flushers: usize,
    pub reclaimers: usize,
    pub clean_block_threshold: usize,
    pub tombstone: bool,
    pub compression: Comp,
    pub buffer_pool_size: usize,
    pub blob_index_size: usize,
    pub submit_queue_threshold: usize,
    pub hash_div: u64,
    /// reinsertion: admit hashes with hash % m == 0 (0 = reject all, the default)
    pub reinsert_mod: u64,
    /// admission: reject hashes with hash % m == 1 (0 = admit all)
    pub admit_reject_mod: u64,
    /// admission: answer `Throttled` for hashes with hash % m == 2 (0 = never)
    #[serde(default)]
    pub admit_throttle_mod: u64,
    pub indexer_shards: usize,
    /// build the cache without an event listener (the hand-off of evicted entries must not depend on one)
    #[serde(default)]
    pub no_listener: bool,
}

impl HCfg {
    pub fn small(algo: AlgoCfg) -> Self {
        HCfg {
            algo,
            mem_capacity: 16 * 1024,
            mem_shards: 1,
            policy: Policy::WriteOnEviction,
            flush_on_close: true,
            block_size: 64 * 1024,
            blocks: 8,
            flushers: 1,
            reclaimers: 1,
            clean_block_threshold: 1,
            tombstone: false,
            compression: Comp::None,
            buffer_pool_size: 256 * 1024,
            blob_index_size: 4096,
            submit_queue_threshold: 64 * 1024 * 1024,
            hash_div: 1,
            reinsert_mod: 0,
            admit_reject_mod: 0,
            admit_throttle_mod: 0,
            indexer_shards: 4,
            no_listener: false,
        }
    }

    /// pages of the tombstone partition + device capacity that yields exactly `blocks` blocks
    pub fn device_capacity(&self) -> usize {
        let data = self.blocks * self.block_size;
        if !self.tombstone {
            return data;
        }
        // engine: pages = ceil((capacity / PAGE) / 256) where capacity includes the log itself
        let mut cap = data;
        for _ in 0..8 {
            let entries = cap / PAGE;
            let pages = entries.div_ceil(256);
            let want = data + pages * PAGE;
            if want == cap {
                break;
            }
            cap = want;
        }
        cap
    }

    pub fn tombstone_pages(&self) -> usize {
        if !self.tombstone {
            return 0;
        }
        (self.device_capacity() / PAGE).div_ceil(256)
    }

    pub fn max_entry_size(&self) -> usize {
        self.block_size - self.blob_index_size
    }
}

#[derive(Debug)]
struct ModReinsert(u64);
impl StorageFilterCondition for ModReinsert {
    fn filter(&self, _: &Arc<foyer::Statistics>, hash: u64, _: usize) -> foyer::StorageFilterResult {
        if self.0 != 0 && hash % self.0 == 0 {
            foyer::StorageFilterResult::Admit
        } else {
            foyer::StorageFilterResult::Reject
        }
    }
}

#[derive(Debug)]
struct ModAdmit(u64, Arc<Mutex<Vec<(u64, bool)>>>, u64);
impl StorageFilterCondition for ModAdmit {
    fn filter(&self, _: &Arc<foyer::Statistics>, hash: u64, _: usize) -> foyer::StorageFilterResult {
        if self.2 != 0 && hash % self.2 == 2 {
            self.1.lock().push((hash, false));
            return foyer::StorageFilterResult::Throttled(std::time::Duration::from_millis(1));
        }
        let admit = !(self.0 != 0 && hash % self.0 == 1);
        self.1.lock().push((hash, admit));
        if admit {
            foyer::StorageFilterResult::Admit
        } else {
            foyer::StorageFilterResult::Reject
        }
    }
}

#[derive(Clone, Debug, Serialize, Deserialize, PartialEq, Eq)]
pub struct MemLeave {
    pub reason: crate::mem::Reason,
    pub key: u64,
    pub stamp: Option<Stamp>,
    /// logical time (the io wrapper's clock) at which the listener was called
    #[serde(default)]
    pub t: u64,
}

#[derive(Default, Debug)]
pub struct HLog {
    pub leaves: Mutex<Vec<MemLeave>>,
    pub clock: std::sync::OnceLock<Arc<IoCtl>>,
}

struct HListener(Arc<HLog>);
impl EventListener for HListener {
    type Key = u64;
    type Value = Vec<u8>;
    fn on_leave(&self, reason: Event, key: &u64, value: &Vec<u8>) {
        let t = self.0.clock.get().map(|c| c.now()).unwrap_or(0);
        self.0.leaves.lock().push(MemLeave { reason: reason.into(), key: *key, stamp: value::parse(value).ok(), t });
    }
}

pub struct Controls {
    pub io: Arc<IoCtl>,
    pub flush_switch: Switch,
    pub load_holder: Holder,
    pub load_throttle: LoadThrottleSwitch,
    pub log: Arc<HLog>,
    pub admissions: Arc<Mutex<Vec<(u64, bool)>>>,
}

impl Controls {
    pub fn new() -> Self {
        let io = Arc::new(IoCtl::default());
        let log = Arc::new(HLog::default());
        let _ = log.clock.set(io.clone());
        Controls {
            io,
            flush_switch: Switch::default(),
            load_holder: Holder::default(),
            load_throttle: LoadThrottleSwitch::default(),
            log,
            admissions: Default::default(),
        }
    }
}

impl Default for Controls {
    fn default() -> Self {
        Self::new()
    }
}

pub async fn open(cfg: &HCfg, dir: &std::path::Path, ctl: &Controls, recover: RecoverMode) -> foyer::Result<HCache> {
    let device = FsDeviceBuilder::new(dir).with_capacity(cfg.device_capacity()).build()?;
    let mut engine = BlockEngineConfig::<u64, Vec<u8>, HybridCacheProperties>::new(device)
        .with_block_size(cfg.block_size)
        .with_indexer_shards(cfg.indexer_shards)
        .with_recover_concurrency(2)
        .with_flushers(cfg.flushers)
        .with_reclaimers(cfg.reclaimers)
        .with_buffer_pool_size(cfg.buffer_pool_size)
        .with_blob_index_size(cfg.blob_index_size)
        .with_submit_queue_size_threshold(cfg.submit_queue_threshold)
        .with_clean_block_threshold(cfg.clean_block_threshold)
        .with_eviction_pickers(vec![Box::new(InvalidRatioPicker::new(0.8)), Box::<FifoPicker>::default()])
        .with_tombstone_log(cfg.tombstone)
        .with_compression(cfg.compression.to_foyer())
        .with_flush_switch(ctl.flush_switch.clone())
        .with_load_holder(ctl.load_holder.clone());
    if cfg.reinsert_mod != 0 {
        engine = engine.with_reinsertion_filter(StorageFilter::new().with_condition(ModReinsert(cfg.reinsert_mod)));
    }
    engine = engine.with_admission_filter(
        StorageFilter::new().with_condition(ModAdmit(cfg.admit_reject_mod, ctl.admissions.clone(), cfg.admit_throttle_mod)),
    );
    let policy = match cfg.policy {
        Policy::WriteOnEviction => HybridCachePolicy::WriteOnEviction,
        Policy::WriteOnInsertion => HybridCachePolicy::WriteOnInsertion,
    };
    let mut b = HybridCacheBuilder::new().with_name("vh").with_policy(policy).with_flush_on_close(cfg.flush_on_close);
    if !cfg.no_listener {
        b = b.with_event_listener(Arc::new(HListener(ctl.log.clone())));
    }
    b.memory(cfg.mem_capacity)
        .with_shards(cfg.mem_shards)
        .with_eviction_config(cfg.algo.eviction_config())
        .with_hash_builder(DivHasher { div: cfg.hash_div.max(1) })
        .with_weighter(|_: &u64, v: &Vec<u8>| v.len().max(1))
        .storage()
        .with_io_engine_config(RecIoConfig { ctl: ctl.io.clone() })
        .with_engine_config(engine)
        .with_recover_mode(recover)
        .build()
        .await
}

pub fn props(location: Location) -> HybridCacheProperties {
    HybridCacheProperties::default().with_location(location)
}

/// scratch directory on the filesystem of /verif (never /tmp for registered commands)
pub fn scratch_dir(tag: &str) -> PathBuf {
    let base = std::env::var("VH_SCRATCH").unwrap_or_else(|_| {
        if std::path::Path::new("/dev/shm").is_dir() { "/dev/shm/vh-scratch".to_string() } else { "/verif/scratch".to_string() }
    });
    let p = PathBuf::from(base).join(format!("{tag}-{}-{}", std::process::id(), NEXT.fetch_add(1, std::sync::atomic::Ordering::Relaxed)));
    let _ = std::fs::remove_dir_all(&p);
    std::fs::create_dir_all(&p).unwrap();
    p
}

static NEXT: std::sync::atomic::AtomicU64 = std::sync::atomic::AtomicU64::new(0);

pub struct DirGuard(pub PathBuf);
impl Drop for DirGuard {
    fn drop(&mut self) {
        let _ = std::fs::remove_dir_all(&self.0);
    }
}

/// result of a lookup as seen by the oracle
#[derive(Clone, Debug, Serialize, Deserialize, PartialEq, Eq)]
pub enum Seen {
    Miss,
    Hit(Stamp),
    /// bytes that do not validate (garbage / truncated / foreign layout)
    Corrupt(String),
    Error(String),
}

pub fn see(key: u64, r: foyer::Result<Option<HEntry>>) -> Seen {
    match r {
        Ok(None) => Seen::Miss,
        Ok(Some(e)) => see_entry(key, &e),
        Err(e) => Seen::Error(format!("{:?}", e.kind())),
    }
}

pub fn see_entry(key: u64, e: &HEntry) -> Seen {
    match value::parse(e.value()) {
        Ok(s) => {
            if *e.key() != key {
                Seen::Corrupt(format!("entry key {} for requested key {key}", e.key()))
            } else {
                Seen::Hit(s)
            }
        }
        Err(b) => Seen::Corrupt(format!("{b:?}")),
    }
}
