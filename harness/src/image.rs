//! Independent device-image reader / builder, written from the on-disk format (not from foyer's
//! scanner): blob indexes, entry headers, checksums, zstd/lz4 payloads, tombstone log pages.
//! Also builds crash images from the recorded write log and applies page faults to image copies.
use std::{
    collections::BTreeMap,
    io::Read,
    path::{Path, PathBuf},
};

use serde::{Deserialize, Serialize};

use crate::{
    hyb::{HCfg, PAGE},
    io::WriteRec,
    value::{self, Stamp},
};

pub const ENTRY_MAGIC: u32 = 0x9703_2700;
pub const HEADER_LEN: usize = 36;
pub const INDEX_ENTRY_LEN: usize = 24;
pub const INDEX_HEADER_LEN: usize = 12;

pub fn xxh64(b: &[u8]) -> u64 {
    twox_hash::XxHash64::oneshot(0, b)
}

pub fn partition_file(dir: &Path, id: u32) -> PathBuf {
    dir.join(format!("foyer-storage-direct-fs-{id:08}"))
}

fn be64(b: &[u8]) -> u64 {
    u64::from_be_bytes(b[..8].try_into().unwrap())
}
fn be32(b: &[u8]) -> u32 {
    u32::from_be_bytes(b[..4].try_into().unwrap())
}
fn align_up(n: usize) -> usize {
    n.div_ceil(PAGE) * PAGE
}

#[derive(Clone, Debug, Serialize, Deserialize, PartialEq, Eq)]
pub enum Payload {
    /// a self-validating harness value for key `key`
    Value { key: u64, stamp: Stamp },
    /// header / checksum / decode problem (what a correct loader must turn into a miss or error)
    Bad(String),
}

#[derive(Clone, Debug, Serialize, Deserialize)]
pub struct ParsedEntry {
    pub block: u32,
    pub blob_offset: usize,
    /// offset of the entry inside the block
    pub offset: usize,
    pub len: usize,
    pub hash: u64,
    pub sequence: u64,
    pub payload: Payload,
}

#[derive(Clone, Debug, Serialize, Deserialize)]
pub struct Tomb {
    pub hash: u64,
    pub sequence: u64,
    pub page: usize,
    pub slot: usize,
}

#[derive(Clone, Debug, Default, Serialize, Deserialize)]
pub struct ParsedImage {
    pub entries: Vec<ParsedEntry>,
    pub tombstones: Vec<Tomb>,
    /// per block: number of blobs whose index validated
    pub blobs: Vec<usize>,
    pub layout_problems: Vec<String>,
}

/// Decode one entry region (header + value + key) the way the format documents it, for u64 keys and
/// length-prefixed byte values.
pub fn decode_entry(buf: &[u8]) -> Result<(u64, u64, u64, Vec<u8>), String> {
    let (hash, sequence, kb, plain) = decode_entry_raw(buf)?;
    // Vec<u8> code: usize LE length + bytes
    if plain.len() < 8 {
        return Err("value too short".into());
    }
    let n = u64::from_le_bytes(plain[..8].try_into().unwrap()) as usize;
    if plain.len() != 8 + n {
        return Err(format!("value length {} vs {}", n, plain.len() - 8));
    }
    if kb.len() != 8 {
        return Err("key length".into());
    }
    let key = u64::from_le_bytes(kb[..].try_into().unwrap());
    Ok((hash, sequence, key, plain[8..].to_vec()))
}

/// Header + checksum + decompression only: (hash, sequence, encoded key bytes, encoded value bytes after decompression).
pub fn decode_entry_raw(buf: &[u8]) -> Result<(u64, u64, Vec<u8>, Vec<u8>), String> {
    if buf.len() < HEADER_LEN {
        return Err("short header".into());
    }
    let key_len = be32(&buf[0..]) as usize;
    let value_len = be32(&buf[4..]) as usize;
    let hash = be64(&buf[8..]);
    let sequence = be64(&buf[16..]);
    let checksum = be64(&buf[24..]);
    let tag = be32(&buf[32..]);
    if tag & 0xFFFF_FF00 != ENTRY_MAGIC {
        return Err("magic".into());
    }
    let comp = tag & 0xFF;
    if comp > 2 {
        return Err("compression tag".into());
    }
    let body = &buf[HEADER_LEN..];
    if body.len() < key_len + value_len {
        return Err("out of range".into());
    }
    if xxh64(&body[..value_len + key_len]) != checksum {
        return Err("checksum".into());
    }
    let raw = &body[..value_len];
    let mut dec = Vec::new();
    let plain: &[u8] = match comp {
        0 => raw,
        1 => {
            zstd::Decoder::new(raw).map_err(|e| format!("zstd: {e}"))?.read_to_end(&mut dec).map_err(|e| format!("zstd: {e}"))?;
            &dec
        }
        _ => {
            lz4::Decoder::new(raw).map_err(|e| format!("lz4: {e}"))?.read_to_end(&mut dec).map_err(|e| format!("lz4: {e}"))?;
            &dec
        }
    };
    let kb = &body[value_len..value_len + key_len];
    Ok((hash, sequence, kb.to_vec(), plain.to_vec()))
}

pub fn parse_block(cfg: &HCfg, block: u32, data: &[u8], out: &mut ParsedImage) -> usize {
    let mut off = 0usize;
    let mut blobs = 0usize;
    let mut last_seq = 0u64;
    'blobs: while off + cfg.blob_index_size <= data.len() {
        let idx = &data[off..off + cfg.blob_index_size];
        if xxh64(&idx[8..]) != be64(idx) {
            break;
        }
        let count = be32(&idx[8..]) as usize;
        if INDEX_HEADER_LEN + count * INDEX_ENTRY_LEN > idx.len() {
            out.layout_problems.push(format!("block {block} blob@{off}: count {count} exceeds the index page although the checksum validates"));
            break;
        }
        blobs += 1;
        let mut step = data.len();
        let mut prev_end = cfg.blob_index_size;
        for i in 0..count {
            let e = &idx[INDEX_HEADER_LEN + i * INDEX_ENTRY_LEN..];
            let hash = be64(e);
            let sequence = be64(&e[8..]);
            let eoff = be32(&e[16..]) as usize;
            let elen = be32(&e[20..]) as usize;
            // recovery stops at a sequence regression
            if sequence < last_seq {
                break 'blobs;
            }
            last_seq = sequence;
            if eoff % PAGE != 0 {
                out.layout_problems.push(format!("block {block} blob@{off} entry {i}: offset {eoff} not page aligned"));
            }
            if eoff < prev_end {
                out.layout_problems.push(format!("block {block} blob@{off} entry {i}: region {eoff}+{elen} overlaps the previous entry / index page (ends {prev_end})"));
            }
            if off + eoff + elen > data.len() {
                out.layout_problems.push(format!("block {block} blob@{off} entry {i}: region {eoff}+{elen} crosses the block end"));
                out.entries.push(ParsedEntry { block, blob_offset: off, offset: off + eoff, len: elen, hash, sequence, payload: Payload::Bad("crosses block end".into()) });
                continue;
            }
            prev_end = eoff + align_up(elen);
            step = prev_end;
            let region = &data[off + eoff..off + eoff + align_up(elen).min(data.len() - off - eoff)];
            let payload = match decode_entry(region) {
                Ok((h, s, key, bytes)) => {
                    if h != hash || s != sequence {
                        Payload::Bad(format!("header hash/sequence ({h},{s}) disagree with the index ({hash},{sequence})"))
                    } else {
                        match value::parse(&bytes) {
                            Ok(stamp) => Payload::Value { key, stamp },
                            Err(b) => Payload::Bad(format!("value does not validate: {b:?}")),
                        }
                    }
                }
                Err(e) => Payload::Bad(e),
            };
            out.entries.push(ParsedEntry { block, blob_offset: off, offset: off + eoff, len: elen, hash, sequence, payload });
        }
        if count == 0 {
            break;
        }
        off += step;
    }
    blobs
}

pub fn read_partition(dir: &Path, id: u32) -> Vec<u8> {
    std::fs::read(partition_file(dir, id)).unwrap_or_default()
}

pub fn parse_image(cfg: &HCfg, dir: &Path) -> ParsedImage {
    let mut out = ParsedImage::default();
    let first_block = if cfg.tombstone { 1 } else { 0 };
    if cfg.tombstone {
        let log = read_partition(dir, 0);
        for (p, page) in log.chunks(PAGE).enumerate() {
            for (s, slot) in page.chunks_exact(16).enumerate() {
                let (hash, sequence) = (be64(slot), be64(&slot[8..]));
                if sequence != 0 {
                    out.tombstones.push(Tomb { hash, sequence, page: p, slot: s });
                }
            }
        }
    }
    for b in 0..cfg.blocks as u32 {
        let data = read_partition(dir, first_block + b);
        let n = parse_block(cfg, b, &data, &mut out);
        out.blobs.push(n);
    }
    out
}

/// What recovery must reconstruct: per hash the highest sequence among entries and tombstones
/// (a later item wins ties; tombstones are considered last).
pub fn expected_index(img: &ParsedImage) -> BTreeMap<u64, Option<ParsedEntry>> {
    let mut best: BTreeMap<u64, (u64, Option<ParsedEntry>)> = BTreeMap::new();
    for e in &img.entries {
        match best.get(&e.hash) {
            Some((s, _)) if e.sequence < *s => {}
            _ => {
                best.insert(e.hash, (e.sequence, Some(e.clone())));
            }
        }
    }
    for t in &img.tombstones {
        match best.get(&t.hash) {
            Some((s, _)) if t.sequence < *s => {}
            _ => {
                best.insert(t.hash, (t.sequence, None));
            }
        }
    }
    best.into_iter().map(|(h, (_, e))| (h, e)).collect()
}

// ------------------------------------------------------------------------------- image building
/// Create the partition files of an (empty) device the way FsDevice lays them out.
pub fn create_empty(cfg: &HCfg, dir: &Path) {
    std::fs::create_dir_all(dir).unwrap();
    let mut id = 0u32;
    if cfg.tombstone {
        std::fs::write(partition_file(dir, id), vec![0u8; cfg.tombstone_pages() * PAGE]).unwrap();
        id += 1;
    }
    for _ in 0..cfg.blocks {
        std::fs::write(partition_file(dir, id), vec![0u8; cfg.block_size]).unwrap();
        id += 1;
    }
}

/// In-memory image: partition id -> bytes.
#[derive(Clone)]
pub struct MemImage(pub BTreeMap<u32, Vec<u8>>);

impl MemImage {
    pub fn empty(cfg: &HCfg) -> Self {
        let mut m = BTreeMap::new();
        let mut id = 0u32;
        if cfg.tombstone {
            m.insert(id, vec![0u8; cfg.tombstone_pages() * PAGE]);
            id += 1;
        }
        for _ in 0..cfg.blocks {
            m.insert(id, vec![0u8; cfg.block_size]);
            id += 1;
        }
        MemImage(m)
    }
    pub fn from_dir(cfg: &HCfg, dir: &Path) -> Self {
        let n = cfg.blocks as u32 + cfg.tombstone as u32;
        MemImage((0..n).map(|id| (id, read_partition(dir, id))).collect())
    }
    pub fn apply(&mut self, w: &WriteRec) {
        self.apply_pages(w, None);
    }
    /// apply only the listed pages of the write (torn write); None = all
    pub fn apply_pages(&mut self, w: &WriteRec, pages: Option<&[usize]>) {
        let Some(p) = self.0.get_mut(&w.partition) else { return };
        let npages = w.len.div_ceil(PAGE);
        for pg in 0..npages {
            if let Some(sel) = pages {
                if !sel.contains(&pg) {
                    continue;
                }
            }
            let s = pg * PAGE;
            let e = ((pg + 1) * PAGE).min(w.data.len());
            let d = w.offset as usize + s;
            if e <= s || d + (e - s) > p.len() {
                continue;
            }
            p[d..d + (e - s)].copy_from_slice(&w.data[s..e]);
        }
    }
    pub fn write_to(&self, dir: &Path) {
        std::fs::create_dir_all(dir).unwrap();
        for (id, data) in &self.0 {
            std::fs::write(partition_file(dir, *id), data).unwrap();
        }
    }
    pub fn page(&self, partition: u32, page: usize) -> Option<&[u8]> {
        self.0.get(&partition).and_then(|p| p.get(page * PAGE..(page + 1) * PAGE))
    }
    pub fn page_mut(&mut self, partition: u32, page: usize) -> Option<&mut [u8]> {
        self.0.get_mut(&partition).and_then(|p| p.get_mut(page * PAGE..(page + 1) * PAGE))
    }
    pub fn pages(&self, partition: u32) -> usize {
        self.0.get(&partition).map(|p| p.len() / PAGE).unwrap_or(0)
    }
}

/// Check layout facts directly on the write log (C07 / C09): page alignment, block bounds, and
/// within one block generation no data write over an earlier data region or a foreign index page.
pub fn check_write_log(cfg: &HCfg, writes: &[WriteRec]) -> Vec<(String, String)> {
    let mut problems = vec![];
    let first_block = cfg.tombstone as u32;
    // per block: list of (start, end, is_index_rewrite_allowed_start) for the current generation
    let mut gens: BTreeMap<u32, Vec<(usize, usize, u64)>> = BTreeMap::new();
    for w in writes {
        if w.partition < first_block {
            if w.offset as usize % PAGE != 0 || w.len != PAGE {
                problems.push(("tombstone-write-shape".into(), format!("tombstone log write {}+{} is not one aligned page", w.offset, w.len)));
            }
            continue;
        }
        let (s, e) = (w.offset as usize, w.offset as usize + w.len);
        if s % PAGE != 0 || w.len % PAGE != 0 {
            problems.push(("unaligned-write".into(), format!("write #{} partition {} {}+{} is not page aligned", w.seq, w.partition, s, w.len)));
        }
        if e > cfg.block_size {
            problems.push(("write-crosses-block-end".into(), format!("write #{} partition {} {}+{} exceeds the block size {}", w.seq, w.partition, s, w.len, cfg.block_size)));
        }
        let is_clean = s == 0 && w.len == PAGE && w.data.len() == PAGE && w.data.iter().all(|b| *b == 0);
        let g = gens.entry(w.partition).or_default();
        if is_clean {
            g.clear();
            continue;
        }
        // an index page rewrite (same start as an earlier write of exactly blob_index_size) is the documented blob continuation
        let is_index_sized = w.len == cfg.blob_index_size;
        for (ps, pe, pseq) in g.iter() {
            let overlap = s < *pe && *ps < e;
            if !overlap {
                continue;
            }
            let same_index_page = is_index_sized && *ps == s && *pe == e;
            if !same_index_page {
                problems.push((
                    "overlapping-write-in-generation".into(),
                    format!("write #{} partition {} {}..{} overlaps write #{} {}..{} of the same block generation (no clean in between)", w.seq, w.partition, s, e, pseq, ps, pe),
                ));
                break;
            }
        }
        g.push((s, e, w.seq));
    }
    problems
}
