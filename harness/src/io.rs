//! Recording / gating / fault-injecting io engine.  It wraps the real psync engine on a real
//! `FsDevice` directory: bytes, files and the recovery path are the production ones; the wrapper
//! only observes (ordered write log with payload, read log) and delays or perturbs at the one place
//! where real devices do (completion time, returned bytes, io errors).
use std::{
    collections::BTreeMap,
    fmt::Debug,
    sync::{
        atomic::{AtomicBool, AtomicU64, Ordering},
        Arc,
    },
};

use foyer::{Error, ErrorKind, IoEngine, IoEngineConfig, IoHandle, PsyncIoEngineConfig, Result};
use foyer_storage::verif::{IoB, IoBuf, IoBufMut, IoEngineBuildContext, Partition, PAGE};
use futures_util::{future::BoxFuture, FutureExt};
use parking_lot::Mutex;
use serde::{Deserialize, Serialize};
use tokio::sync::oneshot;

#[derive(Clone, Debug, Serialize, Deserialize)]
pub struct WriteRec {
    pub seq: u64,
    pub partition: u32,
    pub offset: u64,
    pub len: usize,
    #[serde(skip)]
    pub data: Arc<Vec<u8>>,
    pub t_issue: u64,
    pub t_complete: u64,
    pub failed: bool,
}

#[derive(Clone, Debug, Serialize, Deserialize)]
pub struct ReadRec {
    pub partition: u32,
    pub offset: u64,
    pub len: usize,
    pub t: u64,
    pub faulted: bool,
}

#[derive(Clone, Debug, Serialize, Deserialize, PartialEq)]
pub enum FaultKind {
    /// flip one bit at byte offset (relative to the page) / bit
    Flip { byte: usize, bit: u8 },
    ZeroPage,
    /// replace the page with these bytes (page swap, older generation)
    Replace(#[serde(skip)] Arc<Vec<u8>>),
    IoError,
}

#[derive(Clone, Debug)]
pub struct ReadFault {
    pub partition: u32,
    /// page-aligned device offset inside the partition
    pub page_offset: u64,
    pub kind: FaultKind,
    /// remaining applications (u64::MAX = always)
    pub remaining: u64,
}

#[derive(Default)]
struct Gate {
    hold: bool,
    waiting: Vec<(u64, oneshot::Sender<()>)>,
}

pub struct IoCtl {
    pub clock: AtomicU64,
    pub writes: Mutex<Vec<WriteRec>>,
    pub reads: Mutex<Vec<ReadRec>>,
    pub partitions: Mutex<BTreeMap<u32, usize>>,
    write_gate: Mutex<Gate>,
    read_gate: Mutex<Gate>,
    pub read_faults: Mutex<Vec<ReadFault>>,
    pub fail_writes: AtomicBool,
    pub inflight: AtomicU64,
    pub issued: AtomicU64,
    pub record_payload: AtomicBool,
}

impl Debug for IoCtl {
    fn fmt(&self, f: &mut std::fmt::Formatter<'_>) -> std::fmt::Result {
        f.write_str("IoCtl")
    }
}

impl Default for IoCtl {
    fn default() -> Self {
        IoCtl {
            clock: AtomicU64::new(1),
            writes: Default::default(),
            reads: Default::default(),
            partitions: Default::default(),
            write_gate: Default::default(),
            read_gate: Default::default(),
            read_faults: Default::default(),
            fail_writes: AtomicBool::new(false),
            inflight: AtomicU64::new(0),
            issued: AtomicU64::new(0),
            record_payload: AtomicBool::new(true),
        }
    }
}

impl IoCtl {
    pub fn now(&self) -> u64 {
        self.clock.fetch_add(1, Ordering::SeqCst)
    }
    pub fn hold_writes(&self) {
        self.write_gate.lock().hold = true;
    }
    pub fn hold_reads(&self) {
        self.read_gate.lock().hold = true;
    }
    pub fn held_writes(&self) -> Vec<u64> {
        self.write_gate.lock().waiting.iter().map(|(s, _)| *s).collect()
    }
    pub fn held_reads(&self) -> usize {
        self.read_gate.lock().waiting.len()
    }
    /// release one held write by log sequence number
    pub fn release_write(&self, seq: u64) -> bool {
        let mut g = self.write_gate.lock();
        if let Some(p) = g.waiting.iter().position(|(s, _)| *s == seq) {
            let (_, tx) = g.waiting.remove(p);
            let _ = tx.send(());
            true
        } else {
            false
        }
    }
    /// stop holding and release everything that is waiting (in issue order)
    pub fn release_writes(&self) {
        let mut g = self.write_gate.lock();
        g.hold = false;
        for (_, tx) in g.waiting.drain(..) {
            let _ = tx.send(());
        }
    }
    pub fn release_reads(&self) {
        let mut g = self.read_gate.lock();
        g.hold = false;
        for (_, tx) in g.waiting.drain(..) {
            let _ = tx.send(());
        }
    }
    fn wait_gate(gate: &Mutex<Gate>, seq: u64) -> Option<oneshot::Receiver<()>> {
        let mut g = gate.lock();
        if g.hold {
            let (tx, rx) = oneshot::channel();
            g.waiting.push((seq, tx));
            Some(rx)
        } else {
            None
        }
    }
    pub fn write_count(&self) -> usize {
        self.writes.lock().len()
    }
    pub fn bytes_written(&self) -> u64 {
        self.writes.lock().iter().map(|w| w.len as u64).sum()
    }
    pub fn snapshot_writes(&self) -> Vec<WriteRec> {
        self.writes.lock().clone()
    }
}

#[derive(Debug)]
pub struct RecIoConfig {
    pub ctl: Arc<IoCtl>,
}

impl From<RecIoConfig> for Box<dyn IoEngineConfig> {
    fn from(c: RecIoConfig) -> Self {
        Box::new(c)
    }
}

impl IoEngineConfig for RecIoConfig {
    fn build(self: Box<Self>, ctx: IoEngineBuildContext) -> BoxFuture<'static, Result<Arc<dyn IoEngine>>> {
        async move {
            let inner = PsyncIoEngineConfig::new().boxed().build(ctx).await?;
            let e: Arc<dyn IoEngine> = Arc::new(RecIo { inner, ctl: self.ctl });
            Ok(e)
        }
        .boxed()
    }
}

pub struct RecIo {
    inner: Arc<dyn IoEngine>,
    ctl: Arc<IoCtl>,
}

impl Debug for RecIo {
    fn fmt(&self, f: &mut std::fmt::Formatter<'_>) -> std::fmt::Result {
        f.write_str("RecIo")
    }
}

impl IoEngine for RecIo {
    fn read(&self, buf: Box<dyn IoBufMut>, partition: &dyn Partition, offset: u64) -> IoHandle {
        let ctl = self.ctl.clone();
        let pid = partition.id();
        ctl.partitions.lock().entry(pid).or_insert(partition.size());
        let len = buf.len();
        let inner = self.inner.read(buf, partition, offset);
        let gate = IoCtl::wait_gate(&ctl.read_gate, 0);
        ctl.inflight.fetch_add(1, Ordering::SeqCst);
        ctl.issued.fetch_add(1, Ordering::SeqCst);
        let fut = async move {
            if let Some(rx) = gate {
                let _ = rx.await;
            }
            let (buf, mut res) = inner.await;
            let mut faulted = false;
            {
                let mut faults = ctl.read_faults.lock();
                for f in faults.iter_mut() {
                    if f.partition != pid || f.remaining == 0 {
                        continue;
                    }
                    let (ps, pe) = (f.page_offset, f.page_offset + PAGE as u64);
                    let (rs, re) = (offset, offset + len as u64);
                    if ps >= re || pe <= rs {
                        continue;
                    }
                    faulted = true;
                    if f.remaining != u64::MAX {
                        f.remaining -= 1;
                    }
                    let (ptr, blen) = buf.as_raw_parts();
                    let s = (ps.max(rs) - rs) as usize;
                    let e = ((pe.min(re)) - rs) as usize;
                    if e > blen {
                        continue;
                    }
                    // the buffer is exclusively owned by this io at this point
                    let slice = unsafe { std::slice::from_raw_parts_mut(ptr.add(s), e - s) };
                    let page_skip = (ps.max(rs) - ps) as usize;
                    match &f.kind {
                        FaultKind::Flip { byte, bit } => {
                            if *byte >= page_skip && *byte - page_skip < slice.len() {
                                slice[*byte - page_skip] ^= 1 << (bit % 8);
                            }
                        }
                        FaultKind::ZeroPage => slice.fill(0),
                        FaultKind::Replace(bytes) => {
                            let src = &bytes[page_skip..(page_skip + slice.len()).min(bytes.len())];
                            slice[..src.len()].copy_from_slice(src);
                        }
                        FaultKind::IoError => {
                            res = Err(Error::new(ErrorKind::Io, "injected read error"));
                        }
                    }
                }
            }
            let t = ctl.now();
            ctl.reads.lock().push(ReadRec { partition: pid, offset, len, t, faulted });
            ctl.inflight.fetch_sub(1, Ordering::SeqCst);
            (buf, res)
        }
        .boxed();
        IoHandle::from(fut)
    }

    fn write(&self, buf: Box<dyn IoBuf>, partition: &dyn Partition, offset: u64) -> IoHandle {
        let ctl = self.ctl.clone();
        let pid = partition.id();
        ctl.partitions.lock().entry(pid).or_insert(partition.size());
        let len = buf.len();
        let data = if ctl.record_payload.load(Ordering::Relaxed) { Arc::new(buf.to_vec()) } else { Arc::new(vec![]) };
        let t_issue = ctl.now();
        let seq = {
            let mut w = ctl.writes.lock();
            let seq = w.len() as u64;
            w.push(WriteRec { seq, partition: pid, offset, len, data, t_issue, t_complete: 0, failed: false });
            seq
        };
        let fail = ctl.fail_writes.load(Ordering::Relaxed);
        let (inner, kept) = if fail { (None, Some(buf)) } else { (Some(self.inner.write(buf, partition, offset)), None) };
        let gate = IoCtl::wait_gate(&ctl.write_gate, seq);
        ctl.inflight.fetch_add(1, Ordering::SeqCst);
        ctl.issued.fetch_add(1, Ordering::SeqCst);
        let fut = async move {
            if let Some(rx) = gate {
                let _ = rx.await;
            }
            let out = match inner {
                Some(h) => h.await,
                None => {
                    let b: Box<dyn IoB> = kept.unwrap().into_iob();
                    (b, Err(Error::new(ErrorKind::Io, "injected write error")))
                }
            };
            let t = ctl.now();
            {
                let mut w = ctl.writes.lock();
                w[seq as usize].t_complete = t;
                w[seq as usize].failed = out.1.is_err();
            }
            ctl.inflight.fetch_sub(1, Ordering::SeqCst);
            out
        }
        .boxed();
        IoHandle::from(fut)
    }
}
