//! Algorithm-agnostic ledger over the observations of a single-threaded op sequence.
//!
//! It derives, from the observed leave events only, which insert ids are resident, and judges
//!   * `acct`   (C05): usage/entries/contains agree with the resident set; evictions are necessary
//!                     and sufficient; clear/resize postconditions;
//!   * `leave`  (C13): exactly-once leave per admitted id, reason matches the operation, not visible
//!                     to a re-entrant lookup, pipe offers for Evict only and exactly once;
//!   * `handle` (C18): handles unchanged, is_outdated truthful, LRU never evicts a pinned id,
//!                     lookups return the resident id.
use std::collections::{BTreeMap, BTreeSet};

use crate::mem::{Algo, Leave, MemCfg, Obs, Reason, Step};

#[derive(Clone, Debug)]
pub struct Finding {
    pub class: &'static str,
    pub signature: String,
    pub detail: String,
    pub step_index: usize,
}

#[derive(Clone, Debug)]
struct IdInfo {
    key: u64,
    w: usize,
    phantom: bool,
    resident: bool,
    leaves: Vec<Reason>,
    piped: u32,
    handles: u32,
    /// looked up since the handle count was last zero (LRU pin model)
    looked: bool,
}

pub struct Ledger {
    cfg: MemCfg,
    caps: Vec<usize>,
    ids: BTreeMap<u64, IdInfo>,
    resident: BTreeMap<u64, u64>,
    pub findings: Vec<Finding>,
    step_index: usize,
    cache_dropped: bool,
    // coverage counters
    pub n_evict: u64,
    pub n_replace: u64,
    pub n_remove: u64,
    pub n_clear: u64,
    pub n_pinned_skips: u64,
    pub n_over_capacity_excused: u64,
    pub n_phantom: u64,
    pub n_outdated_true: u64,
    pub n_evict_with_handles: u64,
}

impl Ledger {
    pub fn new(cfg: MemCfg, caps: Vec<usize>) -> Self {
        Ledger {
            cfg,
            caps,
            ids: BTreeMap::new(),
            resident: BTreeMap::new(),
            findings: vec![],
            step_index: 0,
            cache_dropped: false,
            n_evict: 0,
            n_replace: 0,
            n_remove: 0,
            n_clear: 0,
            n_pinned_skips: 0,
            n_over_capacity_excused: 0,
            n_phantom: 0,
            n_outdated_true: 0,
            n_evict_with_handles: 0,
        }
    }

    fn shard_of(&self, key: u64) -> usize {
        ((key / self.cfg.div.max(1)) % self.cfg.shards as u64) as usize
    }

    fn shard_usage(&self, s: usize) -> usize {
        self.resident
            .iter()
            .filter(|(k, _)| self.shard_of(**k) == s)
            .map(|(_, id)| self.ids[id].w)
            .sum()
    }

    fn pinned(&self, id: u64) -> bool {
        let i = &self.ids[&id];
        self.cfg.algo.algo == Algo::Lru && i.looked && i.handles > 0
    }

    fn find(&mut self, class: &'static str, sig: impl Into<String>, detail: impl Into<String>) {
        self.findings.push(Finding {
            class,
            signature: sig.into(),
            detail: detail.into(),
            step_index: self.step_index,
        });
    }

    /// Record the leave of `l`; returns false if it is not a legitimate single leave of a resident id.
    fn leave(&mut self, l: &Leave, expect: &[Reason], op: &str) -> bool {
        let Some(info) = self.ids.get(&l.id).cloned() else {
            self.find("leave", format!("leave:unknown-id:{op}"), format!("{l:?}"));
            return false;
        };
        if info.key != l.key {
            self.find("leave", format!("leave:key-mismatch:{op}"), format!("{l:?} id belongs to key {}", info.key));
        }
        if info.phantom {
            // disk-only entries are judged on the pipe only (DESIGN: probed, they get two notifications)
            self.ids.get_mut(&l.id).unwrap().leaves.push(l.reason);
            return true;
        }
        if !info.resident {
            self.find(
                "leave",
                format!("leave:duplicate:{:?}-after-{:?}:{op}", l.reason, info.leaves),
                format!("{l:?} id already left with {:?}", info.leaves),
            );
            return false;
        }
        if l.still_visible {
            self.find(
                "leave",
                format!("leave:still-visible:{:?}:{op}", l.reason),
                format!("{l:?}: a lookup from inside on_leave still returned the leaving entry"),
            );
        }
        if !expect.contains(&l.reason) {
            self.find(
                "leave",
                format!("leave:wrong-reason:{:?}:{op}", l.reason),
                format!("{l:?} during {op}, expected one of {expect:?}"),
            );
        }
        match l.reason {
            Reason::Evict => self.n_evict += 1,
            Reason::Replace => self.n_replace += 1,
            Reason::Remove => self.n_remove += 1,
            Reason::Clear => self.n_clear += 1,
        }
        if l.reason == Reason::Evict {
            if info.handles > 0 {
                self.n_evict_with_handles += 1;
            }
            if self.pinned(l.id) {
                self.find(
                    "handle",
                    "handle:lru-evicted-pinned",
                    format!("{l:?}: LRU evicted an entry that was looked up and is still held ({} handles)", info.handles),
                );
            }
        }
        let i = self.ids.get_mut(&l.id).unwrap();
        i.resident = false;
        i.leaves.push(l.reason);
        if self.resident.get(&l.key) == Some(&l.id) {
            self.resident.remove(&l.key);
        }
        true
    }

    fn check_pipe(&mut self, obs: &Obs, must: &BTreeSet<u64>, op: &str) {
        if !self.cfg.pipe {
            return;
        }
        let mut seen: BTreeMap<u64, u32> = BTreeMap::new();
        for p in &obs.piped {
            *seen.entry(p.id).or_insert(0) += 1;
            if let Some(i) = self.ids.get_mut(&p.id) {
                i.piped += 1;
            }
        }
        for (id, n) in &seen {
            if !must.contains(id) {
                let why = self.ids.get(id).map(|i| format!("{:?}", i.leaves)).unwrap_or_default();
                self.find(
                    "leave",
                    format!("pipe:unexpected-offer:{op}"),
                    format!("id {id} offered to the disk tier {n}x during {op} (its leaves: {why})"),
                );
            } else if *n != 1 {
                self.find("leave", format!("pipe:offered-{n}x:{op}"), format!("id {id} offered {n} times during {op}"));
            }
        }
        for id in must {
            if !seen.contains_key(id) {
                self.find(
                    "leave",
                    format!("pipe:missing-offer:{op}"),
                    format!("id {id} left by capacity eviction during {op} but was not offered to the disk tier"),
                );
            }
        }
    }

    /// Evictions of one shard during an op that wants room for `need` more weight under `cap`.
    /// `victims` in observed order.  Judges necessity (no over-eviction) and sufficiency (no
    /// early stop while something evictable remained).
    fn judge_evictions(&mut self, s: usize, cap: usize, need: usize, victims: &[Leave], op: &str) {
        let mut u = self.shard_usage(s);
        for v in victims {
            if u.saturating_add(need) <= cap {
                self.find(
                    "acct",
                    format!("acct:over-evict:{op}"),
                    format!(
                        "shard {s}: victim {v:?} although usage {u} + new weight {need} <= capacity {cap} already held"
                    ),
                );
            }
            u -= self.ids.get(&v.id).map(|i| i.w).unwrap_or(0).min(u);
            // applied by caller through leave()
        }
        // sufficiency is checked by caller after the leaves have been applied (needs remaining set)
    }

    /// After the evictions of an op were applied: if the shard is still over the target, the loop must
    /// have run out of evictable entries (or the new entry alone exceeds the shard, which the statement
    /// excuses).
    fn judge_sufficiency(&mut self, s: usize, cap: usize, need: usize, op: &str) {
        let u = self.shard_usage(s);
        if u.saturating_add(need) > cap {
            let remaining: Vec<u64> =
                self.resident.iter().filter(|(k, _)| self.shard_of(**k) == s).map(|(_, id)| *id).collect();
            let evictable: Vec<u64> = remaining.iter().copied().filter(|id| !self.pinned(*id)).collect();
            if need > cap {
                // "the new entry alone is larger than the shard": excused by the statement
                self.n_over_capacity_excused += 1;
            } else if !evictable.is_empty() {
                self.find(
                    "acct",
                    format!("acct:under-evict:{op}"),
                    format!(
                        "shard {s}: usage {u} + new weight {need} > capacity {cap} after eviction stopped, but evictable entries {evictable:?} remain"
                    ),
                );
            } else if !remaining.is_empty() {
                self.n_pinned_skips += 1;
            }
        }
    }

    pub fn step(&mut self, obs: &Obs) {
        let shards = self.cfg.shards;
        match &obs.step {
            Step::Insert { k, w, phantom, id, .. } => {
                let s = self.shard_of(*k);
                let cap = self.caps[s];
                self.ids.insert(
                    *id,
                    IdInfo {
                        key: *k,
                        w: *w,
                        phantom: *phantom,
                        resident: false,
                        leaves: vec![],
                        piped: 0,
                        handles: 1,
                        looked: false,
                    },
                );
                if *phantom {
                    self.n_phantom += 1;
                    let mut must = BTreeSet::new();
                    for l in &obs.leaves {
                        if l.id == *id {
                            self.leave(l, &[Reason::Remove, Reason::Evict], "insert-phantom");
                        } else if l.reason == Reason::Evict {
                            // not expected on this path, but a legitimate capacity eviction would have to be piped
                            must.insert(l.id);
                            self.leave(l, &[Reason::Replace], "insert-phantom");
                        } else {
                            self.leave(l, &[Reason::Replace], "insert-phantom");
                            if l.key != *k {
                                self.find("leave", "leave:replace-other-key:insert-phantom", format!("{l:?}"));
                            }
                        }
                    }
                    if let Some(old) = self.resident.get(k).copied() {
                        self.find(
                            "leave",
                            "leave:missing:Replace:insert-phantom",
                            format!("disk-only insert of key {k} left older id {old} resident"),
                        );
                        // resync
                        self.ids.get_mut(&old).unwrap().resident = false;
                        self.resident.remove(k);
                    }
                    self.check_pipe(obs, &must, "insert-phantom");
                } else {
                    let victims: Vec<Leave> =
                        obs.leaves.iter().filter(|l| l.reason == Reason::Evict).cloned().collect();
                    for v in &victims {
                        if self.shard_of(v.key) != s {
                            self.find("acct", "acct:evict-other-shard:insert", format!("{v:?} while inserting key {k}"));
                        }
                    }
                    self.judge_evictions(s, cap, *w, &victims, "insert");
                    let mut must = BTreeSet::new();
                    for l in &obs.leaves {
                        match l.reason {
                            Reason::Evict => {
                                if self.leave(l, &[Reason::Evict], "insert") {
                                    must.insert(l.id);
                                }
                            }
                            _ => {
                                if l.key != *k {
                                    self.find("leave", format!("leave:wrong-reason:{:?}:insert", l.reason), format!("{l:?}"));
                                    self.leave(l, &[Reason::Evict], "insert");
                                } else {
                                    self.leave(l, &[Reason::Replace], "insert");
                                }
                            }
                        }
                    }
                    self.judge_sufficiency(s, cap, *w, "insert");
                    if let Some(old) = self.resident.get(k).copied() {
                        self.find(
                            "leave",
                            "leave:missing:Replace:insert",
                            format!("insert of key {k} (id {id}) produced no leave event for the replaced id {old}"),
                        );
                        self.ids.get_mut(&old).unwrap().resident = false;
                        self.resident.remove(k);
                    }
                    self.check_pipe(obs, &must, "insert");
                    self.ids.get_mut(id).unwrap().resident = true;
                    self.resident.insert(*k, *id);
                    let after = self.shard_usage(s);
                    if after > cap {
                        self.n_over_capacity_excused += 1;
                        let others_held = self.ids.iter().any(|(i, info)| i != id && info.handles > 0 && !info.phantom);
                        if !others_held && *w <= cap {
                            self.find(
                                "handle",
                                "handle:over-capacity-with-no-outstanding-handles",
                                format!("shard {s}: after inserting key {k} (weight {w}) usage is {after} > capacity {cap} although no other handle is outstanding"),
                            );
                        }
                    }
                }
            }
            Step::Get { k, hit } => {
                let want = self.resident.get(k).copied();
                if *hit != want {
                    self.find(
                        "handle",
                        "handle:get-mismatch",
                        format!("get({k}) returned id {hit:?}, resident id is {want:?}"),
                    );
                }
                if let Some(id) = hit {
                    if let Some(i) = self.ids.get_mut(id) {
                        i.handles += 1;
                        if i.resident {
                            i.looked = true;
                        }
                    }
                }
                self.no_events(obs, "get");
            }
            Step::Touch { k, hit } => {
                let want = self.resident.contains_key(k);
                if *hit != want {
                    self.find("handle", "handle:touch-mismatch", format!("touch({k}) = {hit}, resident = {want}"));
                }
                if let Some(id) = self.resident.get(k).copied() {
                    let i = self.ids.get_mut(&id).unwrap();
                    if i.handles > 0 {
                        i.looked = true;
                    }
                }
                self.no_events(obs, "touch");
            }
            Step::Contains { k, hit } => {
                let want = self.resident.contains_key(k);
                if *hit != want {
                    self.find("acct", "acct:contains-mismatch", format!("contains({k}) = {hit}, resident = {want}"));
                }
                self.no_events(obs, "contains");
            }
            Step::CloneHandle { id } => {
                if let Some(i) = self.ids.get_mut(id) {
                    i.handles += 1;
                }
                self.no_events(obs, "clone");
            }
            Step::DropHandle { id } => {
                let mut must = BTreeSet::new();
                let mut phantom_last = false;
                if let Some(i) = self.ids.get_mut(id) {
                    i.handles = i.handles.saturating_sub(1);
                    if i.handles == 0 {
                        i.looked = false;
                        if i.phantom {
                            phantom_last = true;
                        }
                    }
                }
                if phantom_last {
                    must.insert(*id);
                    for l in &obs.leaves {
                        if l.id != *id {
                            self.find("leave", "leave:unexpected-event:drop-phantom", format!("{l:?}"));
                            self.leave(l, &[], "drop-phantom");
                        } else {
                            self.leave(l, &[Reason::Evict, Reason::Remove], "drop-phantom");
                        }
                    }
                    self.check_pipe(obs, &must, "drop-phantom");
                } else {
                    self.no_events(obs, "drop");
                }
            }
            Step::Remove { k, hit } => {
                let want = self.resident.get(k).copied();
                if *hit != want {
                    self.find(
                        "handle",
                        "handle:remove-mismatch",
                        format!("remove({k}) returned id {hit:?}, resident id is {want:?}"),
                    );
                }
                if let Some(id) = hit {
                    if let Some(i) = self.ids.get_mut(id) {
                        i.handles += 1;
                    }
                }
                let mut got = false;
                for l in &obs.leaves {
                    if Some(l.id) == want && !got {
                        got = true;
                        self.leave(l, &[Reason::Remove], "remove");
                    } else {
                        self.find("leave", "leave:unexpected-event:remove", format!("{l:?} during remove({k})"));
                        self.leave(l, &[], "remove");
                    }
                }
                if let (Some(id), false) = (want, got) {
                    self.find("leave", "leave:missing:Remove:remove", format!("remove({k}) of resident id {id} produced no event"));
                    self.ids.get_mut(&id).unwrap().resident = false;
                    self.resident.remove(k);
                }
                self.check_pipe(obs, &BTreeSet::new(), "remove");
            }
            Step::Clear | Step::DropCache => {
                let op = if matches!(obs.step, Step::Clear) { "clear" } else { "drop-cache" };
                let before: BTreeSet<u64> = self.resident.values().copied().collect();
                for l in &obs.leaves {
                    self.leave(l, &[Reason::Clear], op);
                }
                for id in before {
                    if self.ids[&id].resident {
                        self.find("leave", format!("leave:missing:Clear:{op}"), format!("{op} left id {id} without a leave event"));
                        let k = self.ids[&id].key;
                        self.ids.get_mut(&id).unwrap().resident = false;
                        self.resident.remove(&k);
                    }
                }
                self.check_pipe(obs, &BTreeSet::new(), op);
                if matches!(obs.step, Step::DropCache) {
                    self.cache_dropped = true;
                }
            }
            Step::Resize { cap, ok } => {
                if *ok {
                    let new_caps: Vec<usize> =
                        (0..shards).map(|i| cap / shards + usize::from(i < cap % shards)).collect();
                    // the split of a resized capacity is measured the same way as the initial one would be;
                    // here the documented split (base + remainder to the first shards) is what the initial
                    // measurement confirmed, so it is reused (see c05 for the sum check on fresh caches).
                    self.caps = new_caps;
                }
                self.evict_only(obs, "resize", None);
            }
            Step::EvictAll => self.evict_only(obs, "evict_all", Some(0)),
            Step::Flush => self.evict_only(obs, "flush", Some(0)),
        }
        if !self.cache_dropped {
            self.global_checks(obs);
        } else {
            self.final_checks();
        }
        self.step_index += 1;
    }

    fn evict_only(&mut self, obs: &Obs, op: &str, target: Option<usize>) {
        let shards = self.cfg.shards;
        for s in 0..shards {
            let cap = target.unwrap_or(self.caps[s]);
            let victims: Vec<Leave> = obs
                .leaves
                .iter()
                .filter(|l| l.reason == Reason::Evict && self.shard_of(l.key) == s)
                .cloned()
                .collect();
            self.judge_evictions(s, cap, 0, &victims, op);
        }
        let mut must = BTreeSet::new();
        for l in &obs.leaves {
            if self.leave(l, &[Reason::Evict], op) && l.reason == Reason::Evict {
                must.insert(l.id);
            }
        }
        for s in 0..shards {
            let cap = target.unwrap_or(self.caps[s]);
            self.judge_sufficiency(s, cap, 0, op);
        }
        self.check_pipe(obs, &must, op);
    }

    fn no_events(&mut self, obs: &Obs, op: &str) {
        for l in &obs.leaves {
            self.find("leave", format!("leave:unexpected-event:{op}"), format!("{l:?} during {op}"));
            self.leave(l, &[], op);
        }
        self.check_pipe(obs, &BTreeSet::new(), op);
    }

    fn global_checks(&mut self, obs: &Obs) {
        let want_usage: usize = self.resident.values().map(|id| self.ids[id].w).sum();
        let op = step_name(&obs.step);
        if obs.usage != want_usage {
            self.find(
                "acct",
                format!("acct:usage-mismatch:after={op}"),
                format!("usage() = {}, summed weight of findable entries = {want_usage}", obs.usage),
            );
        }
        if obs.entries != self.resident.len() {
            self.find(
                "acct",
                format!("acct:entries-mismatch:after={op}"),
                format!("entries() = {}, findable entries = {}", obs.entries, self.resident.len()),
            );
        }
        for (k, c) in obs.contains.iter().enumerate() {
            let want = self.resident.contains_key(&(k as u64));
            if *c != want {
                self.find(
                    "acct",
                    format!("acct:contains-mismatch:after={op}"),
                    format!("contains({k}) = {c} but ledger says resident = {want}"),
                );
            }
        }
        for h in &obs.handles {
            let Some(i) = self.ids.get(&h.id).cloned() else { continue };
            if h.key != i.key || h.val_key != i.key || h.val_id != h.id || h.weight != i.w {
                self.find(
                    "handle",
                    "handle:changed",
                    format!("handle of id {} (key {}, w {}) now reads {h:?}", h.id, i.key, i.w),
                );
            }
            let want_outdated = !i.resident;
            if want_outdated {
                self.n_outdated_true += 1;
            }
            if h.outdated != want_outdated {
                self.find(
                    "handle",
                    format!("handle:is_outdated={}:resident={}", h.outdated, i.resident),
                    format!("id {} after {op}: is_outdated() = {}, but a lookup would {}return it", h.id, h.outdated, if i.resident { "" } else { "not " }),
                );
            }
        }
    }

    fn final_checks(&mut self) {
        let bad: Vec<(u64, IdInfo)> = self
            .ids
            .iter()
            .filter(|(_, i)| !i.phantom && i.leaves.len() != 1)
            .map(|(a, b)| (*a, b.clone()))
            .collect();
        for (id, i) in bad {
            self.find(
                "leave",
                format!("leave:count={}:at-end", i.leaves.len()),
                format!("admitted id {id} (key {}) had leave events {:?} by the time the cache was dropped", i.key, i.leaves),
            );
        }
        if self.cfg.pipe {
            let bad: Vec<(u64, IdInfo)> = self
                .ids
                .iter()
                .filter(|(_, i)| {
                    let evicted = i.phantom || i.leaves.first() == Some(&Reason::Evict);
                    (evicted && i.piped != 1) || (!evicted && i.piped != 0)
                })
                .map(|(a, b)| (*a, b.clone()))
                .collect();
            for (id, i) in bad {
                self.find(
                    "leave",
                    format!("pipe:total-offers={}:leaves={:?}:phantom={}", i.piped, i.leaves, i.phantom),
                    format!("id {id}: offered to the disk tier {} times over its life", i.piped),
                );
            }
        }
    }
}

pub fn step_name(s: &Step) -> &'static str {
    match s {
        Step::Insert { phantom: true, .. } => "insert-phantom",
        Step::Insert { .. } => "insert",
        Step::Get { .. } => "get",
        Step::Touch { .. } => "touch",
        Step::Contains { .. } => "contains",
        Step::DropHandle { .. } => "drop",
        Step::CloneHandle { .. } => "clone",
        Step::Remove { .. } => "remove",
        Step::Clear => "clear",
        Step::Resize { .. } => "resize",
        Step::EvictAll => "evict_all",
        Step::Flush => "flush",
        Step::DropCache => "drop-cache",
    }
}
