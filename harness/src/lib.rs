pub mod ledger;
pub mod mem;
pub mod memseq;
pub mod model;
pub mod c14;
pub mod c02;
pub mod c07;
pub mod c08;
pub mod c10;
pub mod c12;
pub mod c15;
pub mod image;
pub mod c01;
pub mod hscript;
pub mod hyb;
pub mod io;
pub mod value;
pub mod c16;
pub mod fetchseq;
pub mod lin;
pub mod out;
pub mod rng;

/// Extract the message of a caught panic payload.
pub fn panic_message(e: &Box<dyn std::any::Any + Send>) -> String {
    if let Some(s) = e.downcast_ref::<&str>() {
        s.to_string()
    } else if let Some(s) = e.downcast_ref::<String>() {
        s.clone()
    } else {
        "non-string panic payload".to_string()
    }
}

/// Strip digits / addresses so that a message can serve as a stable signature.
pub fn normalise(msg: &str) -> String {
    let mut out = String::new();
    let mut last_hash = false;
    for c in msg.chars().take(160) {
        if c.is_ascii_digit() {
            if !last_hash {
                out.push('#');
            }
            last_hash = true;
        } else {
            last_hash = false;
            out.push(if c.is_whitespace() { '_' } else { c });
        }
    }
    out
}

/// Silence the default panic printer (cases are isolated with catch_unwind and reported as JSON).
pub fn quiet_panics() {
    std::panic::set_hook(Box::new(|_| {}));
}
