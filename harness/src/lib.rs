pub mod ledger;
pub mod mem;
pub mod memseq;
pub mod model;
pub mod c13mt;
pub mod c14;
pub mod c02;
pub mod c03;
pub mod c04;
pub mod c07;
pub mod c09;
pub mod c09burst;
pub mod c08;
pub mod c10;
pub mod c12;
pub mod c15;
pub mod image;
pub mod c01;
pub mod c01bulk;
pub mod hscript;
pub mod hyb;
pub mod io;
pub mod value;
pub mod c16;
pub mod fetchseq;
pub mod lin;
pub mod out;
pub mod rng;

/// Extract the message of a caught panic payload.
pub fn panic_message(e: &Box<dyn std::any::Any + Send>) -> String {
    if let Some(s) = e.downcast_ref::<&str>() {
        s.to_string()
    } else if let Some(s) = e.downcast_ref::<String>() {
        s.clone()
    } else {
        "non-string panic payload".to_string()
    }
}

/// Strip digits / addresses so that a message can serve as a stable signature.
pub fn normalise(msg: &str) -> String {
    let mut out = String::new();
    let mut last_hash = false;
    for c in msg.chars().take(160) {
        if c.is_ascii_digit() {
            if !last_hash {
                out.push('#');
            }
            last_hash = true;
        } else {
            last_hash = false;
            out.push(if c.is_whitespace() { '_' } else { c });
        }
    }
    out
}

/// Silence the default panic printer (cases are isolated with catch_unwind and reported as JSON).
pub fn quiet_panics() {
    std::panic::set_hook(Box::new(|_| {
        PANICS.fetch_add(1, std::sync::atomic::Ordering::SeqCst);
    }));
}

static PANICS: std::sync::atomic::AtomicU64 = std::sync::atomic::AtomicU64::new(0);

/// number of panics the process has seen so far (including those caught by tokio at task boundaries)
pub fn panic_count() -> u64 {
    PANICS.load(std::sync::atomic::Ordering::SeqCst)
}

/// Record the case in progress (read by the driver when the process dies on a fatal signal).
pub fn progress(v: &serde_json::Value) {
    if let Ok(p) = std::env::var("VH_PROGRESS") {
        let _ = std::fs::write(p, v.to_string());
    }
}

/// Run a future on a fresh multi-thread runtime and tear the runtime down afterwards.  A closed
/// HybridCache leaves background tasks (and with them every partition file descriptor) alive for as
/// long as its runtime lives, so monitors that reopen thousands of images use one runtime per open.
pub fn with_rt<T>(workers: usize, f: impl std::future::Future<Output = T>) -> T {
    let rt = tokio::runtime::Builder::new_multi_thread().worker_threads(workers).enable_all().build().unwrap();
    let r = rt.block_on(f);
    rt.shutdown_background();
    r
}

/// Raise the open-file limit as far as the kernel allows (defence in depth for the same reason).
pub fn raise_nofile() {
    if cfg!(miri) {
        return;
    }
    unsafe {
        let mut r = libc::rlimit { rlim_cur: 0, rlim_max: 0 };
        if libc::getrlimit(libc::RLIMIT_NOFILE, &mut r) == 0 {
            for want in [1_000_000u64, 500_000, 100_000, r.rlim_max] {
                let n = libc::rlimit { rlim_cur: want, rlim_max: want.max(r.rlim_max) };
                if libc::setrlimit(libc::RLIMIT_NOFILE, &n) == 0 {
                    break;
                }
            }
        }
    }
}
