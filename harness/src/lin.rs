//! Per-key linearizability checker for a register whose reads may additionally miss (C02, C17).
//!
//! Sequential model, per key: state in {None, Some(v)}.
//!   Write(v)            : state = v
//!   ReadHit(v)          : requires state == v
//!   Present             : requires state != None          (contains/touch returned true)
//!   RemoveHit(v)        : requires state == v; state = None
//!   RemoveMiss / Clear  : always allowed; state = None
//!   FetchOwn(v)         : get_or_fetch returned the caller's own candidate: writes v (state = v)
//!   misses (get None, contains false) are always allowed, have no effect, and are dropped beforehand.
//! Wing&Gong / Lowe search with memoisation on (linearized set, state); a step budget makes the
//! verdict three-valued.
use std::collections::HashSet;

#[derive(Clone, Copy, Debug, PartialEq, Eq, Hash, serde::Serialize, serde::Deserialize)]
pub enum KOp {
    Write(u64),
    ReadHit(u64),
    Present,
    RemoveHit(u64),
    Reset,
    FetchOwn(u64),
}

#[derive(Clone, Copy, Debug, serde::Serialize, serde::Deserialize)]
pub struct KEvent {
    pub op: KOp,
    pub inv: u64,
    pub ret: u64,
    pub thread: u32,
}

#[derive(Debug, PartialEq, Eq)]
pub enum Verdict {
    Linearizable,
    NotLinearizable,
    Inconclusive,
}

fn apply(op: KOp, state: u64) -> Option<u64> {
    // state 0 == None
    match op {
        KOp::Write(v) | KOp::FetchOwn(v) => Some(v),
        KOp::ReadHit(v) => (state == v).then_some(state),
        KOp::Present => (state != 0).then_some(state),
        KOp::RemoveHit(v) => (state == v).then_some(0),
        KOp::Reset => Some(0),
    }
}

pub fn check(events: &[KEvent], budget: u64) -> (Verdict, u64) {
    let n = events.len();
    if n == 0 {
        return (Verdict::Linearizable, 0);
    }
    if n > 128 {
        return (Verdict::Inconclusive, 0);
    }
    let mut ev: Vec<KEvent> = events.to_vec();
    ev.sort_by_key(|e| e.inv);
    let full: u128 = if n == 128 { u128::MAX } else { (1u128 << n) - 1 };
    let mut seen: HashSet<(u128, u64)> = HashSet::new();
    let mut stack: Vec<(u128, u64)> = vec![(0, 0)];
    let mut steps = 0u64;
    while let Some((mask, state)) = stack.pop() {
        if mask == full {
            return (Verdict::Linearizable, steps);
        }
        steps += 1;
        if steps > budget {
            return (Verdict::Inconclusive, steps);
        }
        // minimal ops: not yet linearized and invoked before every other pending op returned
        let mut min_ret = u64::MAX;
        for (i, e) in ev.iter().enumerate() {
            if mask & (1u128 << i) == 0 && e.ret < min_ret {
                min_ret = e.ret;
            }
        }
        for (i, e) in ev.iter().enumerate() {
            if mask & (1u128 << i) != 0 {
                continue;
            }
            if e.inv > min_ret {
                break; // sorted by inv: later ones were invoked after some pending op returned
            }
            if let Some(ns) = apply(e.op, state) {
                let nm = mask | (1u128 << i);
                if seen.insert((nm, ns)) {
                    stack.push((nm, ns));
                }
            }
        }
    }
    (Verdict::NotLinearizable, steps)
}

#[cfg(test)]
mod tests {
    use super::*;
    fn e(op: KOp, inv: u64, ret: u64) -> KEvent {
        KEvent { op, inv, ret, thread: 0 }
    }
    #[test]
    fn basic() {
        // stale read after completed overwrite
        let h = [e(KOp::Write(1), 0, 1), e(KOp::Write(2), 2, 3), e(KOp::ReadHit(1), 4, 5)];
        assert_eq!(check(&h, 1000).0, Verdict::NotLinearizable);
        // overlapping write: either order is fine
        let h = [e(KOp::Write(1), 0, 1), e(KOp::Write(2), 2, 6), e(KOp::ReadHit(1), 4, 5)];
        assert_eq!(check(&h, 1000).0, Verdict::Linearizable);
        // read of removed value
        let h = [e(KOp::Write(1), 0, 1), e(KOp::RemoveHit(1), 2, 3), e(KOp::ReadHit(1), 4, 5)];
        assert_eq!(check(&h, 1000).0, Verdict::NotLinearizable);
        let h = [e(KOp::Write(1), 0, 1), e(KOp::Reset, 2, 3), e(KOp::Present, 4, 5)];
        assert_eq!(check(&h, 1000).0, Verdict::NotLinearizable);
    }
}
