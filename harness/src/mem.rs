//! In-memory cache harness: the real `foyer_memory::Cache` driven by scripted operations, with a
//! recording event listener, a recording pipe and a handle bag.  Everything the monitors need is
//! observed at the public API boundary.
use std::{
    hash::{BuildHasher, Hasher},
    sync::Arc,
};

use foyer::{
    Cache, CacheBuilder, CacheEntry, CacheProperties, Event, EventListener, EvictionConfig, FifoConfig, Hint,
    LfuConfig, LruConfig, S3FifoConfig, SieveConfig,
};
use foyer_memory::{Piece, Pipe};
use parking_lot::Mutex;
use serde::{Deserialize, Serialize};

use crate::rng::Rng;

#[derive(Clone, Copy, Debug, PartialEq, Eq, Serialize, Deserialize, Hash, PartialOrd, Ord)]
pub enum Algo {
    Fifo,
    Lru,
    Lfu,
    S3Fifo,
    Sieve,
}

pub const ALGOS: [Algo; 5] = [Algo::Fifo, Algo::Lru, Algo::Lfu, Algo::S3Fifo, Algo::Sieve];

impl Algo {
    pub fn parse(s: &str) -> Option<Algo> {
        match s.to_ascii_lowercase().as_str() {
            "fifo" => Some(Algo::Fifo),
            "lru" => Some(Algo::Lru),
            "lfu" => Some(Algo::Lfu),
            "s3fifo" => Some(Algo::S3Fifo),
            "sieve" => Some(Algo::Sieve),
            _ => None,
        }
    }
}

#[derive(Clone, Copy, Debug, Serialize, Deserialize)]
pub struct AlgoCfg {
    pub algo: Algo,
    pub lru_high_ratio: f64,
    pub s3_small_ratio: f64,
    pub s3_ghost_ratio: f64,
    pub s3_threshold: u8,
    pub lfu_window_ratio: f64,
    pub lfu_protected_ratio: f64,
}

impl AlgoCfg {
    pub fn default_for(algo: Algo) -> Self {
        AlgoCfg {
            algo,
            lru_high_ratio: 0.9,
            s3_small_ratio: 0.1,
            s3_ghost_ratio: 1.0,
            s3_threshold: 1,
            lfu_window_ratio: 0.1,
            lfu_protected_ratio: 0.8,
        }
    }
    /// A handful of configurations per algorithm whose pools overflow at small capacities.
    pub fn variants(algo: Algo) -> Vec<AlgoCfg> {
        let d = Self::default_for(algo);
        match algo {
            Algo::Fifo | Algo::Sieve => vec![d],
            Algo::Lru => [0.0, 0.25, 0.5, 0.9, 1.0].iter().map(|r| AlgoCfg { lru_high_ratio: *r, ..d }).collect(),
            Algo::S3Fifo => vec![
                d,
                AlgoCfg { s3_small_ratio: 0.25, s3_ghost_ratio: 1.0, s3_threshold: 1, ..d },
                AlgoCfg { s3_small_ratio: 0.5, s3_ghost_ratio: 0.5, s3_threshold: 2, ..d },
                AlgoCfg { s3_small_ratio: 0.34, s3_ghost_ratio: 2.0, s3_threshold: 3, ..d },
                AlgoCfg { s3_small_ratio: 0.5, s3_ghost_ratio: 0.0, s3_threshold: 0, ..d },
            ],
            Algo::Lfu => vec![
                d,
                AlgoCfg { lfu_window_ratio: 0.25, lfu_protected_ratio: 0.5, ..d },
                AlgoCfg { lfu_window_ratio: 0.5, lfu_protected_ratio: 0.25, ..d },
                AlgoCfg { lfu_window_ratio: 0.34, lfu_protected_ratio: 0.34, ..d },
            ],
        }
    }
    pub fn eviction_config(&self) -> EvictionConfig {
        match self.algo {
            Algo::Fifo => FifoConfig::default().into(),
            Algo::Sieve => SieveConfig.into(),
            Algo::Lru => LruConfig { high_priority_pool_ratio: self.lru_high_ratio }.into(),
            Algo::S3Fifo => S3FifoConfig {
                small_queue_capacity_ratio: self.s3_small_ratio,
                ghost_queue_capacity_ratio: self.s3_ghost_ratio,
                small_to_main_freq_threshold: self.s3_threshold,
            }
            .into(),
            Algo::Lfu => LfuConfig {
                window_capacity_ratio: self.lfu_window_ratio,
                protected_capacity_ratio: self.lfu_protected_ratio,
                cmsketch_eps: 0.001,
                cmsketch_confidence: 0.9,
            }
            .into(),
        }
    }
}

/// Deterministic hasher for u64 keys: hash = key / div.  With div = 1 the shard of a key is
/// `key % shards`; with div > 1 groups of `div` consecutive keys collide on the full 64-bit hash.
#[derive(Clone, Copy, Debug)]
pub struct DivHasher {
    pub div: u64,
}

impl Default for DivHasher {
    fn default() -> Self {
        DivHasher { div: 1 }
    }
}

pub struct DivHasherState {
    div: u64,
    acc: u64,
}

impl Hasher for DivHasherState {
    fn finish(&self) -> u64 {
        self.acc / self.div
    }
    fn write(&mut self, bytes: &[u8]) {
        for b in bytes {
            self.acc = (self.acc << 8) | *b as u64;
        }
    }
    fn write_u64(&mut self, i: u64) {
        self.acc = i;
    }
    fn write_usize(&mut self, i: usize) {
        self.acc = i as u64;
    }
}

impl BuildHasher for DivHasher {
    type Hasher = DivHasherState;
    fn build_hasher(&self) -> DivHasherState {
        DivHasherState { div: self.div.max(1), acc: 0 }
    }
}

/// Test value: identifies the insert that created it.
#[derive(Debug)]
pub struct Tv {
    pub key: u64,
    pub id: u64,
    pub w: usize,
    pub phantom: bool,
}

pub type MCache = Cache<u64, Tv, DivHasher, CacheProperties>;
pub type MEntry = CacheEntry<u64, Tv, DivHasher, CacheProperties>;

#[derive(Clone, Copy, Debug, PartialEq, Eq, Serialize, Deserialize, Hash, PartialOrd, Ord)]
pub enum Reason {
    Evict,
    Replace,
    Remove,
    Clear,
}

impl From<Event> for Reason {
    fn from(e: Event) -> Self {
        match e {
            Event::Evict => Reason::Evict,
            Event::Replace => Reason::Replace,
            Event::Remove => Reason::Remove,
            Event::Clear => Reason::Clear,
        }
    }
}

#[derive(Clone, Debug, Serialize, Deserialize, PartialEq, Eq)]
pub struct Leave {
    pub reason: Reason,
    pub key: u64,
    pub id: u64,
    /// set when a re-entrant lookup from inside the callback still returned the leaving id
    pub still_visible: bool,
}

#[derive(Clone, Debug, Serialize, Deserialize, PartialEq, Eq)]
pub struct Piped {
    pub key: u64,
    pub id: u64,
    pub via_flush: bool,
}

#[derive(Default)]
pub struct Log {
    /// when set, the recording pipe's flush future stays pending (a throttled disk tier)
    pub pending_flush: std::sync::atomic::AtomicBool,
    pub leaves: Mutex<Vec<Leave>>,
    pub pipes: Mutex<Vec<Piped>>,
    /// cache handle for re-entrant lookups from the listener (taken out at the end to break the cycle)
    pub reenter: Mutex<Option<MCache>>,
}

impl std::fmt::Debug for Log {
    fn fmt(&self, f: &mut std::fmt::Formatter<'_>) -> std::fmt::Result {
        f.write_str("Log")
    }
}

pub struct Listener(pub Arc<Log>);

impl EventListener for Listener {
    type Key = u64;
    type Value = Tv;
    fn on_leave(&self, reason: Event, key: &u64, value: &Tv) {
        let cache = self.0.reenter.lock().clone();
        let mut still_visible = false;
        if let Some(cache) = cache {
            if let Some(e) = cache.get(key) {
                if e.value().id == value.id {
                    still_visible = true;
                }
            }
        }
        self.0.leaves.lock().push(Leave { reason: reason.into(), key: *key, id: value.id, still_visible });
    }
}

#[derive(Debug)]
pub struct RecPipe(pub Arc<Log>);

impl Pipe for RecPipe {
    type Key = u64;
    type Value = Tv;
    type Properties = CacheProperties;
    fn is_enabled(&self) -> bool {
        true
    }
    fn send(&self, piece: Piece<u64, Tv, CacheProperties>) {
        self.0.pipes.lock().push(Piped { key: *piece.key(), id: piece.value().id, via_flush: false });
    }
    fn flush(
        &self,
        pieces: Vec<Piece<u64, Tv, CacheProperties>>,
    ) -> std::pin::Pin<Box<dyn Future<Output = ()> + Send>> {
        let mut g = self.0.pipes.lock();
        for piece in pieces {
            g.push(Piped { key: *piece.key(), id: piece.value().id, via_flush: true });
        }
        if self.0.pending_flush.load(std::sync::atomic::Ordering::Relaxed) {
            Box::pin(std::future::pending())
        } else {
            Box::pin(async {})
        }
    }
}

#[derive(Clone, Debug, Serialize, Deserialize)]
pub struct MemCfg {
    pub algo: AlgoCfg,
    pub capacity: usize,
    pub shards: usize,
    pub pipe: bool,
    pub reenter: bool,
    pub div: u64,
    pub universe: u64,
}

#[derive(Clone, Debug, Serialize, Deserialize, PartialEq, Eq, Hash)]
pub enum Op {
    Insert { k: u64, w: usize, low: bool, phantom: bool },
    /// insert and immediately drop the returned handle
    InsertDrop { k: u64, w: usize, low: bool, phantom: bool },
    Get { k: u64 },
    /// lookup and immediately drop
    GetDrop { k: u64 },
    Touch { k: u64 },
    Contains { k: u64 },
    /// drop the handle at index `slot % bag.len()` (no-op on an empty bag)
    Drop { slot: usize },
    DropAll,
    Clone { slot: usize },
    Remove { k: u64 },
    RemoveDrop { k: u64 },
    Clear,
    Resize { cap: usize },
    EvictAll,
    Flush,
    /// `flush()` against a disk tier that does not complete: the future is polled once and dropped
    FlushCancelled,
}

#[derive(Clone, Debug, Serialize, Deserialize, PartialEq, Eq)]
pub enum Step {
    Insert { k: u64, w: usize, low: bool, phantom: bool, id: u64 },
    Get { k: u64, hit: Option<u64> },
    Touch { k: u64, hit: bool },
    Contains { k: u64, hit: bool },
    DropHandle { id: u64 },
    CloneHandle { id: u64 },
    Remove { k: u64, hit: Option<u64> },
    Clear,
    Resize { cap: usize, ok: bool },
    EvictAll,
    Flush,
    /// the cache itself was dropped (all handles dropped before)
    DropCache,
}

#[derive(Clone, Debug, Serialize, Deserialize)]
pub struct HandleView {
    pub id: u64,
    pub key: u64,
    pub val_key: u64,
    pub val_id: u64,
    pub weight: usize,
    pub outdated: bool,
}

#[derive(Clone, Debug, Serialize, Deserialize)]
pub struct Obs {
    pub step: Step,
    pub leaves: Vec<Leave>,
    pub piped: Vec<Piped>,
    pub usage: usize,
    pub entries: usize,
    pub contains: Vec<bool>,
    pub handles: Vec<HandleView>,
}

pub struct Held {
    pub entry: MEntry,
    pub id: u64,
}

pub struct MemHarness {
    pub cfg: MemCfg,
    pub cache: Option<MCache>,
    pub log: Arc<Log>,
    pub next_id: u64,
    pub bag: Vec<Held>,
}

impl MemHarness {
    pub fn new(cfg: MemCfg) -> Self {
        let log = Arc::new(Log::default());
        let mut b = CacheBuilder::new(cfg.capacity)
            .with_shards(cfg.shards)
            .with_eviction_config(cfg.algo.eviction_config())
            .with_hash_builder(DivHasher { div: cfg.div.max(1) })
            .with_weighter(|_: &u64, v: &Tv| v.w)
            .with_filter(|_: &u64, v: &Tv| !v.phantom);
        b = b.with_event_listener(Arc::new(Listener(log.clone())));
        let mut cache: MCache = b.build();
        if cfg.pipe {
            cache = cache.with_pipe(Arc::new(RecPipe(log.clone())));
        }
        if cfg.reenter {
            *log.reenter.lock() = Some(cache.clone());
        }
        MemHarness { cfg, cache: Some(cache), log, next_id: 1, bag: vec![] }
    }

    fn cache(&self) -> &MCache {
        self.cache.as_ref().expect("cache dropped")
    }

    fn props(low: bool) -> CacheProperties {
        CacheProperties::default().with_hint(if low { Hint::Low } else { Hint::Normal })
    }

    fn observe(&self, step: Step) -> Obs {
        let leaves = std::mem::take(&mut *self.log.leaves.lock());
        let piped = std::mem::take(&mut *self.log.pipes.lock());
        let (usage, entries, contains) = match self.cache.as_ref() {
            Some(c) => (c.usage(), c.entries(), (0..self.cfg.universe).map(|k| c.contains(&k)).collect()),
            None => (0, 0, vec![]),
        };
        let handles = self
            .bag
            .iter()
            .map(|h| HandleView {
                id: h.id,
                key: *h.entry.key(),
                val_key: h.entry.value().key,
                val_id: h.entry.value().id,
                weight: h.entry.weight(),
                outdated: h.entry.is_outdated(),
            })
            .collect();
        Obs { step, leaves, piped, usage, entries, contains, handles }
    }

    fn do_insert(&mut self, k: u64, w: usize, low: bool, phantom: bool) -> (MEntry, u64) {
        let id = self.next_id;
        self.next_id += 1;
        let e = self.cache().insert_with_properties(k, Tv { key: k, id, w, phantom }, Self::props(low));
        (e, id)
    }

    /// Execute one op; returns one observation per atomic step.
    pub fn exec(&mut self, op: &Op, out: &mut Vec<Obs>) {
        match op.clone() {
            Op::Insert { k, w, low, phantom } => {
                let (e, id) = self.do_insert(k, w, low, phantom);
                self.bag.push(Held { entry: e, id });
                out.push(self.observe(Step::Insert { k, w, low, phantom, id }));
            }
            Op::InsertDrop { k, w, low, phantom } => {
                let (e, id) = self.do_insert(k, w, low, phantom);
                self.bag.push(Held { entry: e, id });
                out.push(self.observe(Step::Insert { k, w, low, phantom, id }));
                let h = self.bag.pop().unwrap();
                drop(h);
                out.push(self.observe(Step::DropHandle { id }));
            }
            Op::Get { k } => {
                let r = self.cache().get(&k);
                let hit = r.as_ref().map(|e| e.value().id);
                if let Some(e) = r {
                    let id = e.value().id;
                    self.bag.push(Held { entry: e, id });
                }
                out.push(self.observe(Step::Get { k, hit }));
            }
            Op::GetDrop { k } => {
                let r = self.cache().get(&k);
                let hit = r.as_ref().map(|e| e.value().id);
                if let Some(e) = r {
                    let id = e.value().id;
                    self.bag.push(Held { entry: e, id });
                }
                out.push(self.observe(Step::Get { k, hit }));
                if let Some(id) = hit {
                    let h = self.bag.pop().unwrap();
                    drop(h);
                    out.push(self.observe(Step::DropHandle { id }));
                }
            }
            Op::Touch { k } => {
                let hit = self.cache().touch(&k);
                out.push(self.observe(Step::Touch { k, hit }));
            }
            Op::Contains { k } => {
                let hit = self.cache().contains(&k);
                out.push(self.observe(Step::Contains { k, hit }));
            }
            Op::Drop { slot } => {
                if !self.bag.is_empty() {
                    let i = slot % self.bag.len();
                    let h = self.bag.remove(i);
                    let id = h.id;
                    drop(h);
                    out.push(self.observe(Step::DropHandle { id }));
                }
            }
            Op::DropAll => {
                while let Some(h) = self.bag.pop() {
                    let id = h.id;
                    drop(h);
                    out.push(self.observe(Step::DropHandle { id }));
                }
            }
            Op::Clone { slot } => {
                if !self.bag.is_empty() {
                    let i = slot % self.bag.len();
                    let e = self.bag[i].entry.clone();
                    let id = self.bag[i].id;
                    self.bag.push(Held { entry: e, id });
                    out.push(self.observe(Step::CloneHandle { id }));
                }
            }
            Op::Remove { k } => {
                let r = self.cache().remove(&k);
                let hit = r.as_ref().map(|e| e.value().id);
                if let Some(e) = r {
                    let id = e.value().id;
                    self.bag.push(Held { entry: e, id });
                }
                out.push(self.observe(Step::Remove { k, hit }));
            }
            Op::RemoveDrop { k } => {
                let r = self.cache().remove(&k);
                let hit = r.as_ref().map(|e| e.value().id);
                if let Some(e) = r {
                    let id = e.value().id;
                    self.bag.push(Held { entry: e, id });
                }
                out.push(self.observe(Step::Remove { k, hit }));
                if let Some(id) = hit {
                    let h = self.bag.pop().unwrap();
                    drop(h);
                    out.push(self.observe(Step::DropHandle { id }));
                }
            }
            Op::Clear => {
                self.cache().clear();
                out.push(self.observe(Step::Clear));
            }
            Op::Resize { cap } => {
                let ok = self.cache().resize(cap).is_ok();
                out.push(self.observe(Step::Resize { cap, ok }));
            }
            Op::EvictAll => {
                self.cache().evict_all();
                out.push(self.observe(Step::EvictAll));
            }
            Op::Flush => {
                let fut = self.cache().flush();
                block_on_ready(fut);
                out.push(self.observe(Step::Flush));
            }
            Op::FlushCancelled => {
                self.log.pending_flush.store(true, std::sync::atomic::Ordering::Relaxed);
                {
                    let fut = self.cache().flush();
                    poll_once_and_drop(fut);
                }
                self.log.pending_flush.store(false, std::sync::atomic::Ordering::Relaxed);
                out.push(self.observe(Step::Flush));
            }
        }
    }

    /// Drop every handle, then the cache itself (events of the implicit clear are observed).
    pub fn finish(&mut self, out: &mut Vec<Obs>) {
        self.exec(&Op::DropAll, out);
        *self.log.reenter.lock() = None;
        self.cache = None;
        out.push(self.observe(Step::DropCache));
    }
}

/// Poll a future that must complete without a runtime (the recording pipe's flush is ready at once).
pub fn block_on_ready<F: Future>(fut: F) -> F::Output {
    use std::task::{Context, Poll, RawWaker, RawWakerVTable, Waker};
    fn noop(_: *const ()) {}
    fn clone(_: *const ()) -> RawWaker {
        RawWaker::new(std::ptr::null(), &VT)
    }
    static VT: RawWakerVTable = RawWakerVTable::new(clone, noop, noop, noop);
    let waker = unsafe { Waker::from_raw(RawWaker::new(std::ptr::null(), &VT)) };
    let mut cx = Context::from_waker(&waker);
    let mut fut = std::pin::pin!(fut);
    for _ in 0..1000 {
        if let Poll::Ready(v) = fut.as_mut().poll(&mut cx) {
            return v;
        }
        std::thread::yield_now();
    }
    panic!("future did not complete without a runtime");
}

/// Poll a future exactly once and drop it (cancellation at its first suspension point).
pub fn poll_once_and_drop<F: Future>(fut: F) {
    use std::task::{Context, RawWaker, RawWakerVTable, Waker};
    fn noop(_: *const ()) {}
    fn clone(_: *const ()) -> RawWaker {
        RawWaker::new(std::ptr::null(), &VT)
    }
    static VT: RawWakerVTable = RawWakerVTable::new(clone, noop, noop, noop);
    let waker = unsafe { Waker::from_raw(RawWaker::new(std::ptr::null(), &VT)) };
    let mut cx = Context::from_waker(&waker);
    let mut fut = std::pin::pin!(fut);
    let _ = fut.as_mut().poll(&mut cx);
}

/// Measure the capacity of every shard of a fresh cache with the given configuration, using only
/// the public API: unit-weight inserts into one shard until an insert evicts.
pub fn measure_shard_capacities(cfg: &MemCfg) -> Vec<usize> {
    let mut caps = vec![];
    for s in 0..cfg.shards as u64 {
        let mut c = cfg.clone();
        c.pipe = false;
        c.reenter = false;
        let mut h = MemHarness::new(c);
        let mut out = vec![];
        let mut n = 0u64;
        let cap;
        loop {
            // unit-weight key in shard s (hash == key because div == 1 here)
            let k = 1_200 + s + n * cfg.shards as u64 * 2;
            n += 1;
            let before = h.cache().usage();
            out.clear();
            h.exec(&Op::InsertDrop { k, w: 1, low: false, phantom: false }, &mut out);
            if out.iter().any(|o| o.leaves.iter().any(|l| l.reason == Reason::Evict)) {
                cap = before;
                break;
            }
            // zero-weight probe in the same shard: evicts iff usage > capacity
            let kz = 1_200 + s + cfg.shards as u64 + n * cfg.shards as u64 * 2;
            let before = h.cache().usage();
            out.clear();
            h.exec(&Op::InsertDrop { k: kz, w: 0, low: false, phantom: false }, &mut out);
            if out.iter().any(|o| o.leaves.iter().any(|l| l.reason == Reason::Evict)) {
                cap = before - 1;
                break;
            }
            if n > 100_000 {
                cap = usize::MAX;
                break;
            }
        }
        caps.push(cap);
        let mut sink = vec![];
        h.finish(&mut sink);
    }
    caps
}

/// Random op generator used by several checks.
pub struct OpMix {
    pub universe: u64,
    pub weights: Vec<usize>,
    pub allow_phantom: bool,
    pub allow_resize: bool,
    pub resize_caps: Vec<usize>,
    pub allow_clear: bool,
    pub allow_flush: bool,
    pub allow_touch: bool,
    pub allow_low: bool,
}

impl OpMix {
    pub fn generate(&self, rng: &mut Rng) -> Op {
        let k = rng.below(self.universe);
        let w = *rng.pick(&self.weights);
        let low = self.allow_low && rng.chance(1, 4);
        let phantom = self.allow_phantom && rng.chance(1, 10);
        match rng.below(100) {
            0..=21 => Op::InsertDrop { k, w, low, phantom },
            22..=33 => Op::Insert { k, w, low, phantom },
            34..=45 => Op::Get { k },
            46..=55 => Op::GetDrop { k },
            56..=60 => {
                if self.allow_touch {
                    Op::Touch { k }
                } else {
                    Op::GetDrop { k }
                }
            }
            61..=63 => Op::Contains { k },
            64..=77 => Op::Drop { slot: rng.usize(8) },
            78..=80 => Op::Clone { slot: rng.usize(8) },
            81..=86 => Op::RemoveDrop { k },
            87..=88 => Op::Remove { k },
            89..=90 => Op::DropAll,
            91..=92 => {
                if self.allow_clear {
                    Op::Clear
                } else {
                    Op::Drop { slot: 0 }
                }
            }
            93..=95 => {
                if self.allow_resize {
                    Op::Resize { cap: *rng.pick(&self.resize_caps) }
                } else {
                    Op::Drop { slot: 1 }
                }
            }
            96..=97 => Op::EvictAll,
            _ => {
                if self.allow_flush {
                    if rng.chance(1, 3) { Op::FlushCancelled } else { Op::Flush }
                } else {
                    Op::EvictAll
                }
            }
        }
    }
}
