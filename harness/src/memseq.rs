//! C05 / C13 / C18: single-threaded op sequences (bounded-exhaustive + seeded random) against the
//! real memory cache, judged by the algorithm-agnostic ledger.
use serde_json::json;

use crate::{
    ledger::Ledger,
    mem::{measure_shard_capacities, ALGOS, Algo, AlgoCfg, MemCfg, MemHarness, Obs, Op, OpMix},
    out::ShardResult,
    rng::{fnv, Rng},
};

#[derive(Clone, Copy, PartialEq, Eq, Debug)]
pub enum Prop {
    C05,
    C13,
    C18,
}

impl Prop {
    pub fn class(&self) -> &'static str {
        match self {
            Prop::C05 => "acct",
            Prop::C13 => "leave",
            Prop::C18 => "handle",
        }
    }
    pub fn name(&self) -> &'static str {
        match self {
            Prop::C05 => "C05",
            Prop::C13 => "C13",
            Prop::C18 => "C18",
        }
    }
}

pub struct Case {
    pub cfg: MemCfg,
    pub ops: Vec<Op>,
}

pub struct CaseOutcome {
    pub obs: Vec<Obs>,
    pub nontrivial: bool,
    pub hash: u64,
}

fn case_hash(cfg: &MemCfg, ops: &[Op]) -> u64 {
    let s = format!("{cfg:?}|{ops:?}");
    fnv(s.as_bytes())
}

/// Run one case and feed the ledger; returns observations for reporting.
pub fn run_case(prop: Prop, case: &Case, caps: &[usize], res: &mut ShardResult) -> CaseOutcome {
    let mut h = MemHarness::new(case.cfg.clone());
    let mut obs = vec![];
    for op in &case.ops {
        h.exec(op, &mut obs);
    }
    h.finish(&mut obs);
    let mut ledger = Ledger::new(case.cfg.clone(), caps.to_vec());
    for o in &obs {
        ledger.step(o);
    }
    res.evaluations += 1;
    res.count("ops", case.ops.len() as u64);
    res.count("steps", obs.len() as u64);
    res.count("events_evict", ledger.n_evict);
    res.count("events_replace", ledger.n_replace);
    res.count("events_remove", ledger.n_remove);
    res.count("events_clear", ledger.n_clear);
    res.count("phantom_inserts", ledger.n_phantom);
    res.count("pinned_skips", ledger.n_pinned_skips);
    res.count("over_capacity_excused", ledger.n_over_capacity_excused);
    res.count("outdated_handles_seen", ledger.n_outdated_true);
    res.count("evict_with_handles_held", ledger.n_evict_with_handles);
    let piped: u64 = obs.iter().map(|o| o.piped.len() as u64).sum();
    res.count("pipe_offers", piped);
    let nontrivial = match prop {
        Prop::C05 => ledger.n_evict > 0,
        Prop::C13 => {
            let kinds = [ledger.n_evict, ledger.n_replace, ledger.n_remove, ledger.n_clear]
                .iter()
                .filter(|n| **n > 0)
                .count();
            kinds >= 2
        }
        Prop::C18 => ledger.n_outdated_true > 0 || ledger.n_pinned_skips > 0 || ledger.n_evict_with_handles > 0,
    };
    let hash = case_hash(&case.cfg, &case.ops);
    if nontrivial {
        res.nontrivial_hashes.insert(hash);
    }
    let class = prop.class();
    // only the first finding of a case is reported: later ones are usually cascades of the first
    for f in ledger.findings.iter().filter(|f| f.class == class).take(1) {
        res.violate(
            format!("{}:{}:{:?}", prop.name(), f.signature, case.cfg.algo.algo),
            format!("{} (step {})", f.detail, f.step_index),
            json!({
                "check": "memseq", "prop": prop.name(), "cfg": case.cfg, "ops": case.ops,
                "step_index": f.step_index,
                "observations": obs.iter().take(f.step_index + 1).collect::<Vec<_>>(),
            }),
        );
    }
    // other classes are counted (never reported under this property) so cross-talk is visible in evidence
    let other = ledger.findings.iter().filter(|f| f.class != class).count() as u64;
    if other > 0 {
        res.count("findings_of_other_properties_seen", other);
    }
    CaseOutcome { obs, nontrivial, hash }
}

/// A panic inside foyer (assertion, arithmetic overflow with overflow-checks on) is a witness, not a
/// harness failure: it is reported with a normalised message as signature.
pub fn guarded(prop: Prop, case: &Case, caps: &[usize], res: &mut ShardResult) -> Option<CaseOutcome> {
    let r = std::panic::catch_unwind(std::panic::AssertUnwindSafe(|| {
        let mut local = ShardResult::new("tmp", 0);
        let out = run_case(prop, case, caps, &mut local);
        (local, out)
    }));
    match r {
        Ok((local, out)) => {
            res.merge_counts(local);
            Some(out)
        }
        Err(e) => {
            let msg = crate::panic_message(&e);
            res.evaluations += 1;
            res.violate(
                format!("{}:panic:{}:{:?}", prop.name(), crate::normalise(&msg), case.cfg.algo.algo),
                format!("panic while running the case: {msg}"),
                json!({"check":"memseq","prop":prop.name(),"cfg":case.cfg,"ops":case.ops}),
            );
            None
        }
    }
}

fn alphabet(prop: Prop, universe: u64, cap: usize) -> Vec<Op> {
    let mut a = vec![];
    match prop {
        Prop::C05 => {
            for k in 0..universe {
                for w in [0usize, 1, 2, 3, cap + 1] {
                    a.push(Op::InsertDrop { k, w, low: false, phantom: false });
                }
                a.push(Op::Get { k });
                a.push(Op::Touch { k });
                a.push(Op::RemoveDrop { k });
            }
            a.push(Op::Drop { slot: 0 });
            a.push(Op::Clear);
            a.push(Op::Resize { cap: 1 });
            a.push(Op::EvictAll);
        }
        Prop::C13 => {
            for k in 0..universe {
                for w in [1usize, 2] {
                    a.push(Op::InsertDrop { k, w, low: false, phantom: false });
                }
                a.push(Op::Insert { k, w: 1, low: false, phantom: false });
                a.push(Op::InsertDrop { k, w: 1, low: false, phantom: true });
                a.push(Op::Get { k });
                a.push(Op::RemoveDrop { k });
            }
            a.push(Op::Drop { slot: 0 });
            a.push(Op::Clear);
            a.push(Op::Resize { cap: 1 });
            a.push(Op::EvictAll);
            a.push(Op::Flush);
            a.push(Op::FlushCancelled);
        }
        Prop::C18 => {
            for k in 0..universe {
                a.push(Op::InsertDrop { k, w: 1, low: false, phantom: false });
                a.push(Op::Insert { k, w: 1, low: false, phantom: false });
                a.push(Op::InsertDrop { k, w: 2, low: true, phantom: false });
                a.push(Op::Get { k });
                a.push(Op::Touch { k });
                a.push(Op::Remove { k });
            }
            a.push(Op::Drop { slot: 0 });
            a.push(Op::Drop { slot: 1 });
            a.push(Op::Clone { slot: 0 });
            a.push(Op::DropAll);
            a.push(Op::Clear);
            a.push(Op::Resize { cap: 1 });
            a.push(Op::EvictAll);
        }
    }
    a
}

fn mix(prop: Prop, universe: u64, cap: usize) -> OpMix {
    OpMix {
        universe,
        weights: match prop {
            Prop::C05 => vec![0, 1, 1, 2, 3, cap + 1, cap.max(1)],
            _ => vec![1, 1, 2, 3],
        },
        allow_phantom: prop != Prop::C05,
        allow_resize: true,
        resize_caps: vec![0, 1, 2, cap, cap + 3, 2 * cap + 1],
        allow_clear: true,
        allow_flush: prop == Prop::C13,
        allow_touch: true,
        allow_low: true,
    }
}

pub struct Plan {
    pub exhaustive_depth: usize,
    pub random_cases: usize,
    pub random_len: (usize, usize),
}

pub fn plan(tier: &str) -> Plan {
    if tier == "miri" {
        // interpreted: about four orders of magnitude slower - tiny but still reaching every op and leave path
        Plan { exhaustive_depth: 1, random_cases: 96, random_len: (10, 40) }
    } else if tier == "thorough" {
        Plan { exhaustive_depth: 4, random_cases: 40_000, random_len: (20, 400) }
    } else {
        Plan { exhaustive_depth: 3, random_cases: 6_000, random_len: (20, 200) }
    }
}

pub fn run(prop: Prop, seed: u64, tier: &str, shard: usize, nshards: usize) -> ShardResult {
    let mut res = ShardResult::new(&format!("memseq-{}", prop.name()), seed);
    res.exhaustive = true;
    let plan = plan(tier);

    // --- part 0 (C05 only): shard capacities add up to the configured capacity -------------------
    if prop == Prop::C05 && tier != "miri" {
        let mut idx = 0usize;
        for algo in ALGOS {
            for shards in 1..=4usize {
                for cap in 0..=12usize {
                    idx += 1;
                    if idx % nshards != shard {
                        continue;
                    }
                    let cfg = MemCfg {
                        algo: AlgoCfg::default_for(algo),
                        capacity: cap,
                        shards,
                        pipe: false,
                        reenter: false,
                        div: 1,
                        universe: 0,
                    };
                    let caps = measure_shard_capacities(&cfg);
                    res.evaluations += 1;
                    res.count("capacity_split_cases", 1);
                    if shards > cap {
                        res.count("capacity_split_cases_shards_gt_capacity", 1);
                    }
                    let sum: usize = caps.iter().sum();
                    if sum != cap {
                        res.violate(
                            format!("C05:acct:shard-capacities-sum:{algo:?}"),
                            format!("capacity {cap} over {shards} shards: measured shard capacities {caps:?} sum to {sum}"),
                            json!({"check":"memseq","prop":"C05","part":"capacity-split","cfg":cfg,"measured":caps}),
                        );
                    }
                }
            }
        }
    }

    // --- part 1: bounded exhaustive ----------------------------------------------------------------
    let universe = 3u64;
    let mut global_idx = 0usize;
    for algo in ALGOS {
        for (cap, shards) in [(4usize, 1usize), (5, 2)] {
            // multi-shard exhaustive only in thorough for the accounting property
            if shards > 1 && !(tier == "thorough" || prop == Prop::C05) {
                continue;
            }
            let cfg = MemCfg {
                algo: AlgoCfg::default_for(algo),
                capacity: cap,
                shards,
                pipe: prop == Prop::C13,
                reenter: prop == Prop::C13,
                div: 1,
                universe,
            };
            let caps = measure_shard_capacities(&cfg);
            let alpha = alphabet(prop, universe, cap);
            let n = alpha.len();
            let depth = plan.exhaustive_depth;
            let total = n.pow(depth as u32);
            res.count("exhaustive_space", total as u64);
            for code in 0..total {
                global_idx += 1;
                if global_idx % nshards != shard {
                    continue;
                }
                let mut c = code;
                let mut ops = Vec::with_capacity(depth);
                for _ in 0..depth {
                    ops.push(alpha[c % n].clone());
                    c /= n;
                }
                let case = Case { cfg: cfg.clone(), ops };
                let Some(out) = guarded(prop, &case, &caps, &mut res) else { continue };
                res.count("exhaustive_cases", 1);
                if out.nontrivial && res.samples.is_empty() {
                    res.sample(json!({"kind":"exhaustive","cfg":case.cfg,"ops":case.ops,
                        "observed_steps": out.obs.iter().map(|o| json!({"step":o.step,"leaves":o.leaves,"usage":o.usage,"entries":o.entries})).collect::<Vec<_>>() }));
                }
            }
        }
    }

    // --- part 2: seeded random ---------------------------------------------------------------------
    let mut rng = Rng::derive(seed, 0xC0DE + shard as u64);
    let per_shard = plan.random_cases / nshards.max(1);
    for i in 0..per_shard {
        let algo = ALGOS[i % ALGOS.len()];
        let variants = AlgoCfg::variants(algo);
        let acfg = variants[rng.usize(variants.len())];
        let shards = 1 + rng.usize(4);
        let capacity = match rng.below(10) {
            0 => 0,
            1 => rng.usize(shards + 1),
            _ => 1 + rng.usize(14),
        };
        let universe = 3 + rng.below(6);
        let cfg = MemCfg {
            algo: acfg,
            capacity,
            shards,
            pipe: prop == Prop::C13 || rng.chance(1, 3),
            reenter: prop == Prop::C13 && rng.chance(1, 2),
            div: 1,
            universe,
        };
        let caps = measure_shard_capacities(&cfg);
        let len = plan.random_len.0 + rng.usize(plan.random_len.1 - plan.random_len.0);
        let m = mix(prop, universe, capacity);
        let ops: Vec<Op> = (0..len).map(|_| m.generate(&mut rng)).collect();
        let case = Case { cfg, ops };
        let Some(out) = guarded(prop, &case, &caps, &mut res) else { continue };
        res.count("random_cases", 1);
        if out.nontrivial && res.samples.len() < 2 {
            res.sample(json!({"kind":"random","cfg":case.cfg,"ops_prefix": case.ops.iter().take(25).collect::<Vec<_>>(),
                "len": case.ops.len(), "hash": out.hash}));
        }
    }
    let _ = Algo::Fifo;
    res
}

/// Re-run a recorded case (replay file content) and print the findings.
pub fn replay(prop: Prop, cfg: MemCfg, ops: Vec<Op>) -> ShardResult {
    let mut res = ShardResult::new("memseq-replay", 0);
    let caps = measure_shard_capacities(&cfg);
    let case = Case { cfg, ops };
    run_case(prop, &case, &caps, &mut res);
    res
}
