//! Reference models of the five eviction algorithms (C14), written from the published rules and
//! foyer's doc comments; calibrated once against the unchanged tree (see DESIGN.md, C14).
//!
//! `ModelCache` is a sequential single-shard cache: index + usage + one algorithm container.  Its
//! only output is, per operation, the ordered list of evicted ids.
use std::{
    collections::{BTreeMap, HashSet, VecDeque},
    hash::{Hash, Hasher},
};

use datasketches::countmin::CountMinSketch;

use crate::mem::{Algo, AlgoCfg};

#[derive(Clone, Debug)]
pub struct Rec {
    pub key: u64,
    pub hash: u64,
    pub w: usize,
    pub low: bool,
    pub refs: u32,
    pub in_eviction: bool,
    pub in_index: bool,
}

pub trait AlgoModel {
    fn push(&mut self, id: u64, r: &Rec);
    fn pop(&mut self, recs: &BTreeMap<u64, Rec>) -> Option<u64>;
    fn remove(&mut self, id: u64, r: &Rec);
    fn acquire(&mut self, id: u64, r: &Rec);
    fn release(&mut self, id: u64, r: &Rec);
    fn update(&mut self, cap: usize, recs: &BTreeMap<u64, Rec>);
    /// drop everything (default: pop until empty, which is what the documented default does)
    fn clear(&mut self, recs: &BTreeMap<u64, Rec>) {
        while self.pop(recs).is_some() {}
    }
}

fn qremove(q: &mut VecDeque<u64>, id: u64) -> bool {
    if let Some(p) = q.iter().position(|x| *x == id) {
        q.remove(p);
        true
    } else {
        false
    }
}

// ------------------------------------------------------------------------------------------- FIFO
#[derive(Default)]
pub struct FifoM {
    q: VecDeque<u64>,
}
impl AlgoModel for FifoM {
    fn push(&mut self, id: u64, _: &Rec) {
        self.q.push_back(id)
    }
    fn pop(&mut self, _: &BTreeMap<u64, Rec>) -> Option<u64> {
        self.q.pop_front()
    }
    fn remove(&mut self, id: u64, _: &Rec) {
        qremove(&mut self.q, id);
    }
    fn acquire(&mut self, _: u64, _: &Rec) {}
    fn release(&mut self, _: u64, _: &Rec) {}
    fn update(&mut self, _: usize, _: &BTreeMap<u64, Rec>) {}
}

// -------------------------------------------------------------------------------------------- LRU
/// Two-pool LRU: entries inserted with the normal hint go to the high-priority pool, which may hold
/// at most `ratio * capacity` weight (overflow moves its oldest entries to the tail of the low pool);
/// victims are taken from the low pool first, least recently *released* first; an entry that was
/// looked up and is still held is pinned (in neither pool) until its last handle is dropped.
pub struct LruM {
    high: VecDeque<u64>,
    low: VecDeque<u64>,
    pin: HashSet<u64>,
    in_high: HashSet<u64>,
    high_w: usize,
    high_cap: usize,
    ratio: f64,
    w: BTreeMap<u64, usize>,
}
impl LruM {
    pub fn new(cap: usize, ratio: f64) -> Self {
        LruM {
            high: VecDeque::new(),
            low: VecDeque::new(),
            pin: HashSet::new(),
            in_high: HashSet::new(),
            high_w: 0,
            high_cap: (cap as f64 * ratio) as usize,
            ratio,
            w: BTreeMap::new(),
        }
    }
    fn overflow(&mut self) {
        while self.high_w > self.high_cap {
            let id = self.high.pop_front().expect("model: high pool weight without entries");
            self.in_high.remove(&id);
            self.high_w -= self.w[&id];
            self.low.push_back(id);
        }
    }
}
impl AlgoModel for LruM {
    fn push(&mut self, id: u64, r: &Rec) {
        self.w.insert(id, r.w);
        if r.low {
            self.low.push_back(id);
        } else {
            self.in_high.insert(id);
            self.high_w += r.w;
            self.high.push_back(id);
            self.overflow();
        }
    }
    fn pop(&mut self, _: &BTreeMap<u64, Rec>) -> Option<u64> {
        let id = self.low.pop_front().or_else(|| self.high.pop_front())?;
        if self.in_high.remove(&id) {
            self.high_w -= self.w[&id];
        }
        Some(id)
    }
    fn remove(&mut self, id: u64, _: &Rec) {
        if self.pin.remove(&id) {
            self.in_high.remove(&id);
        } else if self.in_high.remove(&id) {
            self.high_w -= self.w[&id];
            qremove(&mut self.high, id);
        } else {
            qremove(&mut self.low, id);
        }
    }
    fn acquire(&mut self, id: u64, r: &Rec) {
        if !r.in_eviction || self.pin.contains(&id) {
            return;
        }
        if self.in_high.contains(&id) {
            qremove(&mut self.high, id);
            self.high_w -= self.w[&id];
        } else {
            qremove(&mut self.low, id);
        }
        self.pin.insert(id);
    }
    fn release(&mut self, id: u64, r: &Rec) {
        if !r.in_eviction || !self.pin.contains(&id) {
            return;
        }
        self.pin.remove(&id);
        if self.in_high.contains(&id) {
            self.high_w += self.w[&id];
            self.high.push_back(id);
            self.overflow();
        } else {
            self.low.push_back(id);
        }
    }
    fn update(&mut self, cap: usize, _: &BTreeMap<u64, Rec>) {
        self.high_cap = (cap as f64 * self.ratio) as usize;
        self.overflow();
    }
    fn clear(&mut self, recs: &BTreeMap<u64, Rec>) {
        while self.pop(recs).is_some() {}
        self.pin.clear();
        self.in_high.clear();
    }
}

// ------------------------------------------------------------------------------------------ SIEVE
/// SIEVE (NSDI'24): FIFO-ordered queue, a visited bit set by lookups, and a hand that walks from
/// the oldest towards the newest entry, clearing visited bits and evicting the first unvisited
/// entry; the hand stays where it stopped and wraps around to the oldest entry.
#[derive(Default)]
pub struct SieveM {
    q: VecDeque<u64>,
    visited: HashSet<u64>,
    hand: Option<u64>,
}
impl AlgoModel for SieveM {
    fn push(&mut self, id: u64, _: &Rec) {
        self.q.push_back(id)
    }
    fn pop(&mut self, _: &BTreeMap<u64, Rec>) -> Option<u64> {
        if self.q.is_empty() {
            return None;
        }
        let mut i = match self.hand {
            Some(h) => self.q.iter().position(|x| *x == h).expect("model: hand not in queue"),
            None => 0,
        };
        loop {
            let id = self.q[i];
            if !self.visited.contains(&id) {
                break;
            }
            self.visited.remove(&id);
            i = if i + 1 >= self.q.len() { 0 } else { i + 1 };
        }
        let id = self.q[i];
        self.hand = self.q.get(i + 1).copied();
        self.q.remove(i);
        self.visited.remove(&id);
        Some(id)
    }
    fn remove(&mut self, id: u64, _: &Rec) {
        if self.hand == Some(id) {
            self.hand = None;
        }
        qremove(&mut self.q, id);
    }
    fn acquire(&mut self, id: u64, _: &Rec) {
        self.visited.insert(id);
    }
    fn release(&mut self, _: u64, _: &Rec) {}
    fn update(&mut self, _: usize, _: &BTreeMap<u64, Rec>) {}
}

// ---------------------------------------------------------------------------------------- S3-FIFO
/// S3-FIFO (SOSP'23): small + main FIFO queues and a ghost queue of recently evicted hashes.
/// New entries go to small unless their hash is in ghost (then main).  Eviction prefers small while
/// it is over its share: an entry with frequency >= threshold is promoted to main, otherwise it is
/// evicted and remembered in ghost.  Main evicts with second chances (frequency decremented and the
/// entry re-queued while its frequency was > 0).  Frequency saturates at 3.
pub struct S3M {
    small: VecDeque<u64>,
    main: VecDeque<u64>,
    ghost_q: VecDeque<(u64, usize)>,
    ghost_set: HashSet<u64>,
    ghost_w: usize,
    ghost_cap: usize,
    small_w: usize,
    main_w: usize,
    small_cap: usize,
    threshold: u8,
    freq: BTreeMap<u64, u8>,
    small_ratio: f64,
    ghost_ratio: f64,
}
impl S3M {
    pub fn new(cap: usize, small_ratio: f64, ghost_ratio: f64, threshold: u8) -> Self {
        S3M {
            small: VecDeque::new(),
            main: VecDeque::new(),
            ghost_q: VecDeque::new(),
            ghost_set: HashSet::new(),
            ghost_w: 0,
            ghost_cap: (cap as f64 * ghost_ratio) as usize,
            small_w: 0,
            main_w: 0,
            small_cap: (cap as f64 * small_ratio) as usize,
            threshold: threshold.min(3),
            freq: BTreeMap::new(),
            small_ratio,
            ghost_ratio,
        }
    }
    fn ghost_pop(&mut self) {
        if let Some((h, w)) = self.ghost_q.pop_front() {
            self.ghost_w -= w;
            self.ghost_set.remove(&h);
        }
    }
    fn ghost_push(&mut self, h: u64, w: usize) {
        if self.ghost_cap == 0 {
            return;
        }
        while self.ghost_w + w > self.ghost_cap && self.ghost_w > 0 {
            self.ghost_pop();
        }
        self.ghost_q.push_back((h, w));
        self.ghost_set.insert(h);
        self.ghost_w += w;
    }
    fn evict_small(&mut self, recs: &BTreeMap<u64, Rec>) -> Option<u64> {
        while let Some(id) = self.small.pop_front() {
            let w = recs[&id].w;
            if *self.freq.get(&id).unwrap_or(&0) >= self.threshold {
                self.small_w -= w;
                self.main_w += w;
                self.main.push_back(id);
            } else {
                self.freq.insert(id, 0);
                self.small_w -= w;
                self.ghost_push(recs[&id].hash, w);
                return Some(id);
            }
        }
        None
    }
    fn evict_main(&mut self, recs: &BTreeMap<u64, Rec>) -> Option<u64> {
        while let Some(id) = self.main.pop_front() {
            let f = *self.freq.get(&id).unwrap_or(&0);
            self.freq.insert(id, f.saturating_sub(1));
            if f > 0 {
                self.main.push_back(id);
            } else {
                self.main_w -= recs[&id].w;
                return Some(id);
            }
        }
        None
    }
}
impl AlgoModel for S3M {
    fn push(&mut self, id: u64, r: &Rec) {
        self.freq.insert(id, 0);
        if self.ghost_set.contains(&r.hash) {
            self.main_w += r.w;
            self.main.push_back(id);
        } else {
            self.small_w += r.w;
            self.small.push_back(id);
        }
    }
    fn pop(&mut self, recs: &BTreeMap<u64, Rec>) -> Option<u64> {
        if self.small_w > self.small_cap {
            if let Some(id) = self.evict_small(recs) {
                return Some(id);
            }
        }
        if let Some(id) = self.evict_main(recs) {
            return Some(id);
        }
        if let Some(id) = self.small.pop_front() {
            self.freq.insert(id, 0);
            self.small_w -= recs[&id].w;
            return Some(id);
        }
        None
    }
    fn remove(&mut self, id: u64, r: &Rec) {
        if qremove(&mut self.main, id) {
            self.main_w -= r.w;
        } else if qremove(&mut self.small, id) {
            self.small_w -= r.w;
        }
        self.freq.insert(id, 0);
    }
    fn acquire(&mut self, id: u64, _: &Rec) {
        let f = *self.freq.get(&id).unwrap_or(&0);
        self.freq.insert(id, (f + 1).min(3));
    }
    fn release(&mut self, _: u64, _: &Rec) {}
    fn update(&mut self, cap: usize, _: &BTreeMap<u64, Rec>) {
        self.ghost_cap = (cap as f64 * self.ghost_ratio) as usize;
        self.small_cap = (cap as f64 * self.small_ratio) as usize;
        if self.ghost_cap != 0 {
            while self.ghost_w > self.ghost_cap && self.ghost_w > 0 {
                self.ghost_pop();
            }
        }
    }
}

// -------------------------------------------------------------------------------------- w-TinyLFU
struct CmKey(u64);
impl Hash for CmKey {
    fn hash<H: Hasher>(&self, state: &mut H) {
        state.write_u64(self.0);
    }
}

/// w-TinyLFU: window (LRU), probation and protected (SLRU) segments.  New entries enter the window;
/// window overflow moves its oldest entries to probation.  A lookup refreshes the entry within
/// window/protected, or promotes it from probation to protected (protected overflow demotes its
/// oldest entries back to probation).  The victim is the window's oldest entry if the sketch
/// estimates it strictly less frequent than probation's oldest entry, otherwise probation's oldest;
/// protected is only evicted from when both are empty.  The frequency sketch (count-min, halved
/// every `num_buckets` updates) is the same third-party crate with the same parameters.
pub struct LfuM {
    window: VecDeque<u64>,
    probation: VecDeque<u64>,
    protected: VecDeque<u64>,
    window_w: usize,
    probation_w: usize,
    protected_w: usize,
    window_cap: usize,
    protected_cap: usize,
    sketch: CountMinSketch<u16>,
    step: usize,
    decay: usize,
    wr: f64,
    pr: f64,
    w: BTreeMap<u64, usize>,
}
impl LfuM {
    pub fn new(cap: usize, wr: f64, pr: f64) -> Self {
        let nh = CountMinSketch::<u16>::suggest_num_hashes(0.9);
        let nb = CountMinSketch::<u16>::suggest_num_buckets(0.001);
        LfuM {
            window: VecDeque::new(),
            probation: VecDeque::new(),
            protected: VecDeque::new(),
            window_w: 0,
            probation_w: 0,
            protected_w: 0,
            window_cap: (cap as f64 * wr) as usize,
            protected_cap: (cap as f64 * pr) as usize,
            sketch: CountMinSketch::<u16>::new(nh, nb),
            step: 0,
            decay: nb as usize,
            wr,
            pr,
            w: BTreeMap::new(),
        }
    }
    fn touch_freq(&mut self, hash: u64) {
        self.sketch.update(CmKey(hash));
        self.step += 1;
        if self.step >= self.decay {
            self.step >>= 1;
            self.sketch.halve();
        }
    }
    fn est(&self, hash: u64) -> u16 {
        self.sketch.estimate(CmKey(hash))
    }
}
impl AlgoModel for LfuM {
    fn push(&mut self, id: u64, r: &Rec) {
        self.window_w += r.w;
        self.touch_freq(r.hash);
        self.window.push_back(id);
        // weights of queued ids are looked up lazily through `w_of`
        self.wmap_insert(id, r.w);
        while self.window_w > self.window_cap {
            let x = self.window.pop_front().expect("model: window weight without entries");
            let w = self.w_of(x);
            self.window_w -= w;
            self.probation_w += w;
            self.probation.push_back(x);
        }
    }
    fn pop(&mut self, recs: &BTreeMap<u64, Rec>) -> Option<u64> {
        let wf = self.window.front().copied();
        let pf = self.probation.front().copied();
        let id = match (wf, pf) {
            (None, None) => {
                let id = self.protected.pop_front()?;
                self.protected_w -= recs[&id].w;
                return Some(id);
            }
            (None, Some(_)) => {
                let id = self.probation.pop_front().unwrap();
                self.probation_w -= recs[&id].w;
                id
            }
            (Some(_), None) => {
                let id = self.window.pop_front().unwrap();
                self.window_w -= recs[&id].w;
                id
            }
            (Some(w), Some(p)) => {
                if self.est(recs[&w].hash) < self.est(recs[&p].hash) {
                    let id = self.window.pop_front().unwrap();
                    self.window_w -= recs[&id].w;
                    id
                } else {
                    let id = self.probation.pop_front().unwrap();
                    self.probation_w -= recs[&id].w;
                    id
                }
            }
        };
        Some(id)
    }
    fn remove(&mut self, id: u64, r: &Rec) {
        if qremove(&mut self.window, id) {
            self.window_w -= r.w;
        } else if qremove(&mut self.probation, id) {
            self.probation_w -= r.w;
        } else if qremove(&mut self.protected, id) {
            self.protected_w -= r.w;
        }
    }
    fn acquire(&mut self, id: u64, r: &Rec) {
        self.touch_freq(r.hash);
        if !r.in_eviction {
            return;
        }
        if qremove(&mut self.window, id) {
            self.window.push_back(id);
        } else if qremove(&mut self.probation, id) {
            self.probation_w -= r.w;
            self.protected_w += r.w;
            self.protected.push_back(id);
            while self.protected_w > self.protected_cap {
                let x = self.protected.pop_front().expect("model: protected weight without entries");
                let w = self.w_of(x);
                self.protected_w -= w;
                self.probation_w += w;
                self.probation.push_back(x);
            }
        } else if qremove(&mut self.protected, id) {
            self.protected.push_back(id);
        }
    }
    fn release(&mut self, _: u64, _: &Rec) {}
    fn update(&mut self, cap: usize, _: &BTreeMap<u64, Rec>) {
        self.window_cap = (cap as f64 * self.wr) as usize;
        self.protected_cap = (cap as f64 * self.pr) as usize;
    }
}

impl LfuM {
    fn wmap_insert(&mut self, id: u64, w: usize) {
        self.w.insert(id, w);
    }
    fn w_of(&self, id: u64) -> usize {
        self.w[&id]
    }
}

// ------------------------------------------------------------------------------------ model cache
pub struct ModelCache {
    pub cap: usize,
    pub usage: usize,
    pub index: BTreeMap<u64, u64>,
    pub recs: BTreeMap<u64, Rec>,
    algo: Box<dyn AlgoModel>,
    noop_acquire: bool,
}

impl ModelCache {
    pub fn new(cfg: &AlgoCfg, cap: usize) -> Self {
        let algo: Box<dyn AlgoModel> = match cfg.algo {
            Algo::Fifo => Box::<FifoM>::default(),
            Algo::Lru => Box::new(LruM::new(cap, cfg.lru_high_ratio)),
            Algo::Sieve => Box::<SieveM>::default(),
            Algo::S3Fifo => Box::new(S3M::new(cap, cfg.s3_small_ratio, cfg.s3_ghost_ratio, cfg.s3_threshold)),
            Algo::Lfu => Box::new(LfuM::new(cap, cfg.lfu_window_ratio, cfg.lfu_protected_ratio)),
        };
        ModelCache {
            cap,
            usage: 0,
            index: BTreeMap::new(),
            recs: BTreeMap::new(),
            algo,
            noop_acquire: cfg.algo == Algo::Fifo,
        }
    }

    fn evict_to(&mut self, target: usize, out: &mut Vec<u64>) {
        while self.usage > target {
            let Some(id) = self.algo.pop(&self.recs) else { break };
            let r = self.recs.get_mut(&id).unwrap();
            r.in_eviction = false;
            r.in_index = false;
            self.usage -= r.w;
            let k = r.key;
            if self.index.get(&k) == Some(&id) {
                self.index.remove(&k);
            }
            out.push(id);
        }
    }

    /// returns evicted ids in order
    pub fn insert(&mut self, id: u64, key: u64, hash: u64, w: usize, low: bool) -> Vec<u64> {
        let mut out = vec![];
        self.evict_to(self.cap.saturating_sub(w), &mut out);
        if let Some(old) = self.index.insert(key, id) {
            let r = self.recs.get(&old).unwrap().clone();
            if r.in_eviction {
                self.algo.remove(old, &r);
            }
            let r = self.recs.get_mut(&old).unwrap();
            r.in_eviction = false;
            r.in_index = false;
            self.usage -= r.w;
        }
        let rec = Rec { key, hash, w, low, refs: 1, in_eviction: true, in_index: true };
        self.algo.push(id, &rec);
        self.recs.insert(id, rec);
        self.usage += w;
        out
    }

    pub fn get(&mut self, key: u64) -> Option<u64> {
        let id = *self.index.get(&key)?;
        self.recs.get_mut(&id).unwrap().refs += 1;
        if !self.noop_acquire {
            let r = self.recs[&id].clone();
            self.algo.acquire(id, &r);
        }
        Some(id)
    }

    pub fn clone_handle(&mut self, id: u64) {
        self.recs.get_mut(&id).unwrap().refs += 1;
    }

    pub fn drop_handle(&mut self, id: u64) {
        let r = self.recs.get_mut(&id).unwrap();
        r.refs -= 1;
        if r.refs == 0 {
            let r = r.clone();
            self.algo.release(id, &r);
        }
    }

    pub fn remove(&mut self, key: u64) -> Option<u64> {
        let id = self.index.remove(&key)?;
        let r = self.recs[&id].clone();
        if r.in_eviction {
            self.algo.remove(id, &r);
        }
        let r = self.recs.get_mut(&id).unwrap();
        r.in_eviction = false;
        r.in_index = false;
        r.refs += 1;
        self.usage -= r.w;
        Some(id)
    }

    pub fn resize(&mut self, cap: usize) -> Vec<u64> {
        let mut out = vec![];
        self.algo.update(cap, &self.recs);
        self.cap = cap;
        self.evict_to(cap, &mut out);
        out
    }

    pub fn clear(&mut self) {
        self.algo.clear(&self.recs);
        for id in self.index.values() {
            let r = self.recs.get_mut(id).unwrap();
            r.in_eviction = false;
            r.in_index = false;
        }
        self.index.clear();
        self.usage = 0;
    }

    pub fn evict_all(&mut self) -> Vec<u64> {
        let mut out = vec![];
        self.evict_to(0, &mut out);
        out
    }
}
