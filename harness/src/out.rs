//! Shard result written by every `vh` subcommand; merged by /verif/check.
use std::collections::{BTreeMap, BTreeSet};

use serde::{Deserialize, Serialize};
use serde_json::Value;

#[derive(Serialize, Deserialize, Debug, Clone)]
pub struct Violation {
    /// stable class signature (no seeds / addresses) matched against known_findings.json
    pub signature: String,
    pub detail: String,
    /// everything needed to re-run: subcommand args + script + observed history
    pub replay: Value,
}

#[derive(Serialize, Deserialize, Debug, Default)]
pub struct ShardResult {
    pub check: String,
    pub seed: u64,
    /// cases actually judged by the oracle
    pub evaluations: u64,
    /// structural hashes of the non-trivial cases (merged across shards for distinct counting)
    pub nontrivial_hashes: BTreeSet<u64>,
    pub samples: Vec<Value>,
    pub counters: BTreeMap<String, u64>,
    pub violations: Vec<Violation>,
    /// cases that could not be judged (timeouts, budget) - never folded into held / violated
    pub inconclusive: u64,
    pub inconclusive_notes: Vec<String>,
    pub exhaustive: bool,
    pub notes: Vec<String>,
}

impl ShardResult {
    pub fn new(check: &str, seed: u64) -> Self {
        ShardResult { check: check.to_string(), seed, ..Default::default() }
    }
    pub fn count(&mut self, k: &str, n: u64) {
        *self.counters.entry(k.to_string()).or_insert(0) += n;
    }
    pub fn set_max(&mut self, k: &str, n: u64) {
        let e = self.counters.entry(k.to_string()).or_insert(0);
        if n > *e {
            *e = n;
        }
    }
    pub fn sample(&mut self, v: Value) {
        if self.samples.len() < 3 {
            self.samples.push(v);
        }
    }
    pub fn violate(&mut self, signature: impl Into<String>, detail: impl Into<String>, replay: Value) {
        // keep at most a handful per signature to bound output
        let signature = signature.into();
        let n = self.violations.iter().filter(|v| v.signature == signature).count();
        self.count(&format!("violations::{signature}"), 1);
        if n < 3 {
            self.violations.push(Violation { signature, detail: detail.into(), replay });
        }
    }
    pub fn merge(&mut self, o: ShardResult) {
        self.evaluations += o.evaluations;
        self.nontrivial_hashes.extend(o.nontrivial_hashes);
        for s in o.samples {
            self.sample(s);
        }
        for (k, v) in o.counters {
            if k.starts_with("max::") {
                self.set_max(&k, v);
            } else {
                self.count(&k, v);
            }
        }
        for v in o.violations {
            let n = self.violations.iter().filter(|x| x.signature == v.signature).count();
            if n < 3 {
                self.violations.push(v);
            }
        }
        self.inconclusive += o.inconclusive;
        self.inconclusive_notes.extend(o.inconclusive_notes.into_iter().take(5));
        self.exhaustive &= o.exhaustive;
        self.notes.extend(o.notes);
    }
    /// merge a per-case local result (keeps `exhaustive` of self)
    pub fn merge_counts(&mut self, o: ShardResult) {
        let ex = self.exhaustive;
        self.merge(o);
        self.exhaustive = ex;
    }
    pub fn write(&self, path: &str) {
        let s = serde_json::to_string(self).unwrap();
        std::fs::write(path, s).unwrap();
    }
}
