//! SplitMix64: tiny deterministic PRNG; every random choice in the harness derives from VERIF_SEED.
#[derive(Clone, Debug)]
pub struct Rng(pub u64);

impl Rng {
    pub fn new(seed: u64) -> Self {
        Rng(seed ^ 0x9E37_79B9_7F4A_7C15)
    }
    pub fn derive(seed: u64, stream: u64) -> Self {
        let mut r = Rng(seed.wrapping_mul(0xD6E8_FEB8_6659_FD93) ^ stream.wrapping_mul(0x9E37_79B9_7F4A_7C15));
        r.next();
        r.next();
        r
    }
    #[allow(clippy::should_implement_trait)]
    pub fn next(&mut self) -> u64 {
        self.0 = self.0.wrapping_add(0x9E37_79B9_7F4A_7C15);
        let mut z = self.0;
        z = (z ^ (z >> 30)).wrapping_mul(0xBF58_476D_1CE4_E5B9);
        z = (z ^ (z >> 27)).wrapping_mul(0x94D0_49BB_1331_11EB);
        z ^ (z >> 31)
    }
    /// uniform in 0..n (n > 0)
    pub fn below(&mut self, n: u64) -> u64 {
        self.next() % n
    }
    pub fn usize(&mut self, n: usize) -> usize {
        (self.next() % n as u64) as usize
    }
    pub fn chance(&mut self, num: u64, den: u64) -> bool {
        self.below(den) < num
    }
    pub fn pick<'a, T>(&mut self, xs: &'a [T]) -> &'a T {
        &xs[self.usize(xs.len())]
    }
    pub fn shuffle<T>(&mut self, xs: &mut [T]) {
        for i in (1..xs.len()).rev() {
            let j = self.usize(i + 1);
            xs.swap(i, j);
        }
    }
    pub fn fill(&mut self, buf: &mut [u8]) {
        for c in buf.chunks_mut(8) {
            let v = self.next().to_le_bytes();
            c.copy_from_slice(&v[..c.len()]);
        }
    }
}

/// FNV-1a 64 for structural hashes of cases (distinctness counting).
pub fn fnv(bytes: &[u8]) -> u64 {
    let mut h = 0xcbf2_9ce4_8422_2325u64;
    for b in bytes {
        h ^= *b as u64;
        h = h.wrapping_mul(0x0000_0100_0000_01B3);
    }
    h
}
