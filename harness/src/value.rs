//! Self-validating values: every stored value says which key it was written for and which insert
//! produced it, and carries a checksum, so a lookup result can be judged without trusting foyer.
//!
//! layout: key u64 | writer u32 | version u32 | total_len u32 | payload (PRNG of key,writer,version) | xxh64 u64
use crate::rng::Rng;

pub const MIN_LEN: usize = 8 + 4 + 4 + 4 + 8;

#[derive(Clone, Copy, Debug, PartialEq, Eq, Hash, PartialOrd, Ord, serde::Serialize, serde::Deserialize)]
pub struct Stamp {
    pub key: u64,
    pub writer: u32,
    pub version: u32,
}

fn xxh(b: &[u8]) -> u64 {
    twox_hash::XxHash64::oneshot(0x5eed, b)
}

/// `compressible`: low-entropy payload (runs) instead of PRNG bytes.
pub fn make(stamp: Stamp, len: usize, compressible: bool) -> Vec<u8> {
    let len = len.max(MIN_LEN);
    let mut v = Vec::with_capacity(len);
    v.extend_from_slice(&stamp.key.to_le_bytes());
    v.extend_from_slice(&stamp.writer.to_le_bytes());
    v.extend_from_slice(&stamp.version.to_le_bytes());
    v.extend_from_slice(&(len as u32).to_le_bytes());
    let plen = len - MIN_LEN;
    let mut payload = vec![0u8; plen];
    let mut rng = Rng::derive(stamp.key ^ ((stamp.writer as u64) << 40), stamp.version as u64);
    if compressible {
        let mut i = 0;
        while i < plen {
            let run = 16 + rng.usize(200);
            let b = (rng.next() & 0xff) as u8;
            for x in payload.iter_mut().skip(i).take(run) {
                *x = b;
            }
            i += run;
        }
    } else {
        rng.fill(&mut payload);
    }
    v.extend_from_slice(&payload);
    let h = xxh(&v);
    v.extend_from_slice(&h.to_le_bytes());
    v
}

#[derive(Debug, PartialEq, Eq)]
pub enum Bad {
    TooShort(usize),
    Length { header: usize, actual: usize },
    Checksum,
}

pub fn parse(v: &[u8]) -> Result<Stamp, Bad> {
    if v.len() < MIN_LEN {
        return Err(Bad::TooShort(v.len()));
    }
    let key = u64::from_le_bytes(v[0..8].try_into().unwrap());
    let writer = u32::from_le_bytes(v[8..12].try_into().unwrap());
    let version = u32::from_le_bytes(v[12..16].try_into().unwrap());
    let len = u32::from_le_bytes(v[16..20].try_into().unwrap()) as usize;
    if len != v.len() {
        return Err(Bad::Length { header: len, actual: v.len() });
    }
    let h = u64::from_le_bytes(v[len - 8..].try_into().unwrap());
    if xxh(&v[..len - 8]) != h {
        return Err(Bad::Checksum);
    }
    Ok(Stamp { key, writer, version })
}

#[cfg(test)]
mod tests {
    use super::*;
    #[test]
    fn roundtrip() {
        for len in [0, 28, 29, 100, 5000] {
            for c in [false, true] {
                let s = Stamp { key: 7, writer: 2, version: 9 };
                let v = make(s, len, c);
                assert_eq!(parse(&v), Ok(s));
                let mut w = v.clone();
                let n = w.len();
                w[n / 2] ^= 1;
                assert!(parse(&w).is_err());
            }
        }
    }
}
