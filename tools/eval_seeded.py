#!/usr/bin/env python3
"""Development aid: run checks against seeded changes in a mirrored worktree (VERIF_REPO), in parallel to normal work.
   usage: eval_seeded.py <worktree> <results.json> <seeded-id>:<check>[,<check>...] ..."""
import json, os, subprocess, sys, time
wt, outp = sys.argv[1], sys.argv[2]
res = json.load(open(outp)) if os.path.exists(outp) else {}
def sh(cmd, cwd=wt, env=None):
    p = subprocess.run(cmd, shell=True, cwd=cwd, stdout=subprocess.PIPE, stderr=subprocess.STDOUT, text=True, env=env)
    return p.returncode, p.stdout
sh("git checkout -q --detach $(git -C /repo rev-parse HEAD) 2>&1; git checkout -- . ")
for spec in sys.argv[3:]:
    mid, checks = spec.split(":")
    sh("git checkout -- .")
    rc, out = sh(f"git apply --3way /verif/seeded/{mid}/patch.diff 2>&1 || git apply /verif/seeded/{mid}/patch.diff")
    sh("git reset -q")
    if rc != 0:
        res.setdefault(mid, {})["apply"] = "FAILED: " + out[-300:]
        json.dump(res, open(outp, "w"), indent=1); print(mid, "apply failed", flush=True); continue
    for chk in checks.split(","):
        tier = "quick"
        if "@" in chk:
            chk, tier = chk.split("@")
        env = dict(os.environ); env["VERIF_REPO"] = wt; env["VERIF_SEED"] = env.get("VERIF_SEED", "11")
        t = time.time()
        rc, out = sh(f"./check {chk} --tier {tier}", cwd="/verif", env=env)
        sigs = [l.strip() for l in out.splitlines() if l.startswith("  signature:")]
        res.setdefault(mid, {})[f"{chk}@{tier}"] = dict(rc=rc, detected=(rc == 1 and "VIOLATION property=" in out), signatures=sigs[:5], wall=round(time.time() - t, 1),
                                                       tail=out.strip().splitlines()[-1][:300] if out.strip() else "")
        json.dump(res, open(outp, "w"), indent=1)
        print(mid, chk, tier, "rc", rc, sigs[:2], flush=True)
    sh("git checkout -- .")
