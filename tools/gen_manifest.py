#!/usr/bin/env python3
"""Regenerate /verif/MANIFEST.json from checks_def.py (run after adding or changing a check)."""
import json, os, subprocess, sys
ROOT = os.path.dirname(os.path.dirname(os.path.abspath(__file__)))
sys.path.insert(0, ROOT)
from checks_def import CHECKS

TECH = {
 "C01": ("runtime monitoring: scripted client histories against the real hybrid cache behind a recording/gating io engine; exact per-key version oracle on self-validating values", "5/C01"),
 "C02": ("runtime monitoring: recorded concurrent client histories (call/return stamps) checked offline for per-key linearizability (WGL, register-with-misses model); ThreadSanitizer in the thorough tier", "5/C02"),
 "C03": ("fault injection + runtime monitoring: per-page fault enumeration on real device images and read faults on a live store, reopened/looked up by the real code; self-validating-value oracle; abort/panic detection", "5/C03"),
 "C04": ("fault injection + runtime monitoring: crash-image enumeration from the recorded device write log (every write prefix + page tears), real recovery code reopened on each image; op-log oracle with wait() ack markers", "5/C04"),
 "C05": ("runtime monitoring: ledger over listener/handle observations after every step of exhaustive and random op sequences (usage, entries, eviction necessity/sufficiency)", "5/C05"),
 "C06": ("runtime monitoring: stepped runtimes with harness-owned lookup/origin gates; every caller outcome compared with a sequential protocol model after every action; hang = pending although idle", "5/C06"),
 "C07": ("runtime monitoring: write-log layout checks + independent device-image parser compared with what recovery and Store::load serve", "5/C07"),
 "C08": ("runtime monitoring: round-trip oracle over boundary/random values for the Code impls and through the real insert->flush->device->load pipeline; truncated-buffer enumeration", "5/C08"),
 "C09": ("runtime monitoring under stress: sustained overwrite churn on tiny devices with seeded io completion orders; per-key version oracle, block-generation discipline on the write log, bounded-progress watchdog, reinsertion and fill-order clauses", "5/C09"),
 "C10": ("runtime monitoring: delete/reinsert plans across close/reopen and crash-copy cycles; every key looked up after every reopen against the op log", "5/C10"),
 "C11": ("runtime monitoring: same stepped-runtime engine as C06 restricted to scripts with an insert during a pending fetch; poison values in superseded futures", "5/C11"),
 "C12": ("runtime monitoring: after every step the device image is parsed independently and the multiset of newly written entry copies is compared with what policy/advice/admission prescribe", "5/C12"),
 "C13": ("runtime monitoring: ledger over on_leave events, re-entrant lookups from the listener and a recording Pipe; exactly-once accounting per admitted insert id", "5/C13"),
 "C14": ("runtime monitoring: per-step comparison of the observed Evict sequence with reference eviction models (FIFO, LRU, SIEVE, S3-FIFO, w-TinyLFU) on exhaustive and random sequences", "5/C14"),
 "C15": ("runtime monitoring: close/reopen plans; resident set snapshot before close vs lookups after reopen; device write log / parsed image before vs after close", "5/C15"),
 "C16": ("runtime monitoring: re-entrant callbacks (listener, weighter, filter, key/value destructors) + parking_lot deadlock detector polled in-process; no-progress watchdog", "5/C16"),
 "C17": ("runtime monitoring: C02 and C01 monitors under a colliding BuildHasher (full 64-bit and same-shard collisions); foreign-value oracle on self-validating values", "5/C17"),
 "C18": ("runtime monitoring: handle bag re-validated after every step; is_outdated vs leave events; LRU pin oracle on Evict events; leak check by capacity recovery", "5/C18"),
}
LEVEL_TEXT = {
 "exploration": "Held on the executions described in the evidence file: the oracle observed every one of the generated executions of the real code (bounded-exhaustive part + seeded random part); nothing is claimed about executions that were not produced.",
 "fault_enumeration": "Every fault / crash point of the stated fault model is applied to each device image produced by a real workload and the real recovery and lookup code is run on it; exhaustive per image for the single-fault kinds within the stated size bound, sampled for multi-fault sets; workloads themselves are sampled.",
}
def main():
    commits = subprocess.check_output(["git", "-C", "/repo", "log", "--format=%h %s"], text=True).splitlines()
    hooks = [c.split()[0] for c in commits if c.split(" ", 1)[1].startswith("verif hooks")]
    checks = []
    for pid in sorted(CHECKS):
        spec = CHECKS[pid]
        tech, ref = TECH[pid]
        checks.append(dict(
            property_id=pid,
            quick_cmd="./check %s --tier quick" % pid,
            thorough_cmd="./check %s --tier thorough" % pid,
            evidence_file="evidence/%s.json" % pid,
            replay_cmd_template="./check %s --replay {path}" % pid,
            engine="vh",
            level_claimed=dict(category=spec["level"], text=LEVEL_TEXT[spec["level"]] + " " + spec["title"] + ".", design_ref="DESIGN.md section " + ref),
            level_note="; ".join(spec["assumptions"]),
            technique=tech,
        ))
    m = dict(
        version=1,
        setup_cmd="./check setup",
        hooks=dict(
            guard="cargo feature `verif` on foyer-storage (forwarded by foyer/verif); off by default",
            enable="the harness crate /verif/harness depends on /repo/foyer* by path with features [verif,test_utils,strict_assertions,deadlock]; every check rebuilds it (and foyer) from /repo's working tree",
            baseline_off_cmd="cd /repo && cargo nextest run --workspace --no-fail-fast --offline",
            source_commits=hooks,
            add_only=True,
        ),
        engines=[dict(name="vh", path="harness", serves_properties=sorted(CHECKS),
                      kind_free_text="Rust harness crate driving the real foyer crates (path deps on /repo): workload generators, recording/gating/fault-injecting io engine, independent device-image parser, reference eviction models, linearizability checker, ledgers; /verif/check is the python driver (build flavours, shards, known-findings matching, evidence)")],
        checks=checks,
        not_applicable=[],
        notes="see DESIGN.md; known findings in known_findings.json; seeded changes in seeded/",
    )
    with open(os.path.join(ROOT, "MANIFEST.json"), "w") as fh:
        json.dump(m, fh, indent=1)
    print("wrote MANIFEST.json with", len(checks), "checks")
main()
