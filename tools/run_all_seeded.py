#!/usr/bin/env python3
"""Run the registered checks against the seeded changes: apply seeded/<id>/patch.diff to /repo, run the check(s),
revert.  Writes seeded/results.json and the `detected_by` list of each meta.json.

  tools/run_all_seeded.py [--tier quick|thorough] [--seed N] [--repo PATH] [--out FILE] [id ...]
                                                                            (default: all ids, quick, seed 11, /repo)

With --repo the patches are applied to another checkout of the repository (a scratch worktree / snapshot) and the checks
run through the driver's VERIF_REPO development mode (a copy of the harness built against that checkout), so the matrix
can be produced in the background while /repo and /verif/harness are being edited.

The checks run are the seeded change's own property plus meta.json["also_checks"] if present."""
import json, os, subprocess, sys, time

ROOT = os.path.dirname(os.path.dirname(os.path.abspath(__file__)))
SEEDED = os.path.join(ROOT, "seeded")


REPO = "/repo"


def sh(cmd, cwd=None, env=None):
    cwd = cwd or REPO
    p = subprocess.run(cmd, shell=True, cwd=cwd, stdout=subprocess.PIPE, stderr=subprocess.STDOUT, text=True, env=env)
    return p.returncode, p.stdout


def main():
    global REPO
    args = sys.argv[1:]
    tier, seed, ids, outp = "quick", "11", [], None
    while args:
        if args[0] == "--tier":
            tier = args[1]; args = args[2:]
        elif args[0] == "--repo":
            REPO = args[1]; args = args[2:]
        elif args[0] == "--out":
            outp = args[1]; args = args[2:]
        elif args[0] == "--seed":
            seed = args[1]; args = args[2:]
        else:
            ids.append(args[0]); args = args[1:]
    if not ids:
        ids = sorted(d for d in os.listdir(SEEDED) if os.path.isdir(os.path.join(SEEDED, d)))
    rc, out = sh("git status --porcelain --untracked-files=no")
    if out.strip():
        print(REPO, "has uncommitted changes to tracked files; refusing"); return 2
    resp = outp or os.path.join(SEEDED, "results.json")
    results = json.load(open(resp)) if os.path.exists(resp) else {}
    for mid in ids:
        d = os.path.join(SEEDED, mid)
        meta = json.load(open(os.path.join(d, "meta.json")))
        checks = [meta["breaks_property"]] + meta.get("also_checks", [])
        rc, out = sh("git apply --3way %s/patch.diff 2>&1 || git apply %s/patch.diff" % (d, d))
        sh("git reset -q")
        if rc != 0:
            results.setdefault(mid, {})["apply"] = "FAILED: " + out[-300:]
            print(mid, "APPLY FAILED", out[-200:]); sh("git checkout -- ."); continue
        results.setdefault(mid, {}).pop("apply", None)
        try:
            for chk in checks:
                env = dict(os.environ); env["VERIF_SEED"] = seed
                if REPO != "/repo":
                    env["VERIF_REPO"] = REPO
                t = time.time()
                rc, out = sh("./check %s --tier %s" % (chk, tier), cwd=ROOT, env=env)
                sigs = sorted(set(l.strip()[len("signature: "):] for l in out.splitlines() if l.strip().startswith("signature:")))
                det = rc == 1 and "VIOLATION property=" in out
                results[mid]["%s@%s" % (chk, tier)] = dict(rc=rc, detected=det, signatures=sigs[:6], wall=round(time.time() - t, 1), seed=int(seed),
                                                            tail=(out.strip().splitlines() or [""])[-1][:300])
                print(mid, chk, tier, "rc", rc, "DETECTED" if det else "missed", sigs[:2], flush=True)
        finally:
            sh("git checkout -- .")
        if outp is None:
            meta["detected_by"] = sorted(k for k, v in results[mid].items() if isinstance(v, dict) and v.get("detected"))
            json.dump(meta, open(os.path.join(d, "meta.json"), "w"), indent=1)
        json.dump(results, open(resp, "w"), indent=1, sort_keys=True)
    rc, out = sh("git status --porcelain --untracked-files=no")
    if out.strip():
        print("WARNING:", REPO, "not clean after the run:", out)
    return 0


sys.exit(main())
