#!/bin/bash
# usage: tools/run_seeded.sh <seeded-id> <check-id> [tier]   -- applies the seeded change to /repo, runs the check, reverts.
set -u
id=$1; chk=$2; tier=${3:-quick}
cd /repo || exit 2
if ! git diff --quiet; then echo "repo dirty"; exit 2; fi
git apply --3way /verif/seeded/$id/patch.diff >/dev/null 2>&1 || git apply /verif/seeded/$id/patch.diff || { echo "APPLY-FAILED $id"; git checkout -- .; git reset -q; exit 3; }
git reset -q
cd /verif
out=$(VERIF_SEED=${VERIF_SEED:-11} ./check $chk --tier $tier 2>&1)
rc=$?
cd /repo && git checkout -- . 
echo "$out" | grep -E "^(VIOLATION|  signature|KNOWN|HARNESS|BUILD)" | cut -c1-200 | head -8
echo "RESULT seeded=$id check=$chk tier=$tier rc=$rc"
