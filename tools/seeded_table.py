#!/usr/bin/env python3
"""Rewrite the table of DESIGN.md section 9 from seeded/*/meta.json and seeded/results.json."""
import json, os, re
ROOT = os.path.dirname(os.path.dirname(os.path.abspath(__file__)))
res = json.load(open(os.path.join(ROOT, "seeded", "results.json")))
rows = []
for mid in sorted(d for d in os.listdir(os.path.join(ROOT, "seeded")) if os.path.isdir(os.path.join(ROOT, "seeded", d))):
    meta = json.load(open(os.path.join(ROOT, "seeded", mid, "meta.json")))
    r = res.get(mid, {})
    cells = []
    for k in sorted(r):
        v = r[k]
        if not isinstance(v, dict):
            continue
        sig = (v.get("signatures") or [""])[0]
        cells.append("%s: %s%s" % (k, "caught" if v.get("detected") else "missed", (" (`%s`)" % sig[:70]) if v.get("detected") and sig else ""))
    need = meta.get("needs_to_manifest", "").split(". Needs")[0].split(": ")[0][:150]
    rows.append("| %s | %s | %s |" % (mid, need.replace("|", "/"), "; ".join(cells) or "not run"))
table = "| seeded change | what it changes | checks run (quick tier, VERIF_SEED=11) |\n|---|---|---|\n" + "\n".join(rows) + "\n"
p = os.path.join(ROOT, "DESIGN.md")
s = open(p).read()
begin, end = "<!-- seeded-table-begin -->", "<!-- seeded-table-end -->"
if begin in s:
    s = s[:s.index(begin) + len(begin)] + "\n" + table + s[s.index(end):]
else:
    anchor = "See `seeded/results.json` and each `meta.json` (`detected_by`) for the current matrix."
    s = s.replace(anchor, anchor + "\n\n" + begin + "\n" + table + end)
open(p, "w").write(s)
n = sum(1 for mid, r in res.items() for v in r.values() if isinstance(v, dict) and v.get("detected"))
print("table written:", len(rows), "seeded changes")
