#!/usr/bin/env python3
"""store verified seeded changes under /verif/seeded/<id>/ from a verify json"""
import json, os, sys, shutil
vj, keep = sys.argv[1], sys.argv[2]
r = json.load(open(vj))
for mid, v in r.items():
    if not (v.get('applies') and v.get('suite_ok') and v.get('demo_fails_with_patch') and v.get('demo_passes_clean')):
        print('skip', mid); continue
    prop, x = mid.split('-')
    d = f'/verif/seeded/{mid}'
    os.makedirs(d, exist_ok=True)
    open(f'{d}/patch.diff', 'w').write(v['rebased_patch'])
    shutil.copyfile(v['demo'], f'{d}/demo.rs')
    notes = open(f'{keep}/{prop}/NOTES.md').read() if os.path.exists(f'{keep}/{prop}/NOTES.md') else ''
    open(f'{d}/NOTES.md', 'w').write(notes)
    meta = dict(id=mid, breaks_property=prop, source="independent sub-agent given only the property text and a scratch worktree",
                needs_to_manifest="see NOTES.md section for change %s" % x,
                confirmed=dict(patch_applies=True, suite_with_patch=v['suite_with_patch'], demo_fails_with_patch=True, demo_passes_clean=True,
                               how="tools/verify_seeded.py in a scratch worktree of /repo HEAD: git apply; cargo nextest run --workspace (101 passed); demo placed as <crate>/tests/seeded_demo.rs fails with the patch and passes without"),
                detected_by=[])
    if os.path.exists(f'{d}/meta.json'):
        old = json.load(open(f'{d}/meta.json')); meta['detected_by'] = old.get('detected_by', [])
    json.dump(meta, open(f'{d}/meta.json', 'w'), indent=1)
    print('stored', mid)
