#!/usr/bin/env python3
"""Confirm seeded changes in a scratch worktree of /repo HEAD:
   patch applies, suite still passes, demo fails with the patch and passes without.
   usage: verify_seeded.py <scratch-worktree> <out.json> <id>=<patch>:<demo>:<crate>[:features] ..."""
import json, os, shutil, subprocess, sys, time
wt, outp = sys.argv[1], sys.argv[2]
def sh(cmd, timeout=3000):
    p = subprocess.run(cmd, shell=True, cwd=wt, stdout=subprocess.PIPE, stderr=subprocess.STDOUT, text=True, timeout=timeout)
    return p.returncode, p.stdout
results = {}
if os.path.exists(outp):
    results = json.load(open(outp))
for spec in sys.argv[3:]:
    mid, rest = spec.split("=", 1)
    parts = rest.split(":")
    patch, demo, crate = parts[0], parts[1], parts[2]
    feats = parts[3] if len(parts) > 3 else ""
    r = dict(id=mid, patch=patch, demo=demo)
    sh("git checkout -- . && git clean -fdq -- foyer foyer-memory foyer-storage foyer-common")
    rc, out = sh(f"git apply --3way {patch} 2>&1 || git apply {patch}")
    r["applies"] = rc == 0
    if rc != 0:
        r["apply_output"] = out[-1500:]
        sh("git checkout -- . ; git reset -q --hard HEAD")
        results[mid] = r; json.dump(results, open(outp, "w"), indent=1); continue
    sh("git reset -q")  # 3way stages changes
    rc, out = sh("git diff > .mv_rebased.diff; git diff --stat")
    r["rebased_patch"] = open(os.path.join(wt, ".mv_rebased.diff")).read()
    # suite with the patch (no demo present)
    rc, out = sh("cargo nextest run --workspace --no-fail-fast --offline 2>&1 | tail -4")
    r["suite_with_patch"] = out.strip().splitlines()[-1] if out.strip() else ""
    r["suite_ok"] = "101 passed" in out
    ddir = os.path.join(wt, crate, "tests"); os.makedirs(ddir, exist_ok=True)
    shutil.copyfile(demo, os.path.join(ddir, "seeded_demo.rs"))
    f = f"--features {feats}" if feats else ""
    cmd = f"timeout 900 cargo test -p {crate} --test seeded_demo --offline {f} 2>&1 | tail -15"
    rc, out = sh(cmd)
    r["demo_with_patch"] = out[-900:]
    r["demo_fails_with_patch"] = ("test result: FAILED" in out) or ("panicked" in out) or ("SIGABRT" in out) or ("error: test failed" in out)
    sh("git checkout -- .")
    rc, out = sh(cmd)
    r["demo_clean"] = out[-500:]
    r["demo_passes_clean"] = "test result: ok" in out and "FAILED" not in out
    os.unlink(os.path.join(ddir, "seeded_demo.rs"))
    results[mid] = r
    json.dump(results, open(outp, "w"), indent=1)
    print(mid, {k: r[k] for k in ("applies", "suite_ok", "demo_fails_with_patch", "demo_passes_clean")}, flush=True)
